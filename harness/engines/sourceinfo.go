package engines

import (
	"bytes"
	"context"
	"fmt"
	"io"
	"os"
	"path/filepath"
	"regexp"
	"sort"
	"strconv"
	"strings"
	"sync"
	"sync/atomic"

	"github.com/bufbuild/protocompile"
	"github.com/bufbuild/protocompile/ast"
	"github.com/bufbuild/protocompile/linker"
	"github.com/bufbuild/protocompile/options"
	"github.com/bufbuild/protocompile/parser"
	"github.com/bufbuild/protocompile/reporter"
	"github.com/bufbuild/protocompile/sourceinfo"
	"github.com/bufbuild/protocompile/verifhooks"
	"google.golang.org/protobuf/proto"
	"google.golang.org/protobuf/reflect/protoreflect"
	"google.golang.org/protobuf/types/descriptorpb"
)

// srcinfo / comments: source code info of the real compiler (C23, C03).
//
// Engine "srcinfo". One case is one generated .proto file:
//
//	file <hex source> <ast>     the source and what the compiler's own parser and option
//	                            interpreter made of it (AST shape as token indexes, OptionIndex);
//	                            answer `ok items=<n> lines=<n> cm=<item>:<attributed token>,...`
//	                            then, after ` ~ `, a dump of the compiled FileDescriptorProto
//	                            (shape only) for the Lean oracle
//	mode <m>                    protocompile.Compiler{SourceInfoMode: m}.Compile of that source
//	                            (m = 1, 2, 5, 7: standard, extra comments, extra option locations,
//	                            both); answer `ok n=<count> <loc> ...`
//	raw <m>                     sourceinfo.GenerateSourceInfo(ast, nil, flags of m): the public entry
//	                            point without an option index (every option stays uninterpreted)
//	conc <rounds>               ONE parsed AST shared by 8 goroutines released together: each generates the
//	                            source info of its own mode (1,2,4,6, each twice) `rounds` times with
//	                            sourceinfo.GenerateSourceInfo, then once with Compiler.Compile from
//	                            SearchResult{AST: shared}; every result must equal the one a lone caller
//	                            gets. Answer `ok`, or `differs m=<mode> via=<direct|compile> n=… <loc>…`
//	                            (the first differing concurrent result)
//	tags / schema               internal/tags constants and descriptorpb's reflection schema in the
//	                            format of the Lean tables
//
// Engine "comments":
//
//	pairs <ec> <hex source> <ast>  attributeComments + combineComments (through the verif hook) for
//	                            every pair of adjacent tokens of the lexed file
//	span l1 c1 l2 c2            makeSpan
//	calib <hex source> <ast>    (standard mode) answer = the compiler's locations, then after ` ~ `
//	                            protoc's locations for the same file from
//	                            internal/testdata/source_info.protoset, with the corrections of
//	                            sourceinfo's own test applied
//
// <loc> is p=<path>/s=<span>/l=<hex|_>/t=<hex|_>/d=<hex;hex|_>  ("_" = absent, "-" = empty).
//
// <ast> is a comma separated prefix encoding, see b03Ser (Go) and PCV.Engines.SourceInfoE (Lean).

const (
	b03TestPath = "t.proto"
	b03OptsPath = "b03opts.proto"
)

// b03OptsSrc defines the custom options every generated file may use.
const b03OptsSrc = `syntax = "proto2";
package b03;
import "google/protobuf/descriptor.proto";
import "google/protobuf/any.proto";
message Opt {
  optional int32 a = 1;
  repeated int32 r = 2;
  optional Opt sub = 3;
  repeated Opt subs = 4;
  optional string s = 5;
  optional google.protobuf.Any any = 6;
  repeated string rs = 7;
  optional Kind k = 8;
  extensions 100 to 199;
}
enum Kind { K0 = 0; K1 = 1; }
extend Opt { optional int32 xa = 100; optional Opt xsub = 101; }
extend google.protobuf.FileOptions { optional Opt fo = 50000; repeated int32 fr = 50001; optional int32 fi = 50002; repeated Opt frm = 50003; }
extend google.protobuf.MessageOptions { optional Opt mo = 50000; repeated int32 mr = 50001; optional int32 mi = 50002; repeated Opt mrm = 50003; }
extend google.protobuf.FieldOptions { optional Opt fdo = 50000; repeated int32 fdr = 50001; optional int32 fdi = 50002; }
extend google.protobuf.OneofOptions { optional Opt oo = 50000; optional int32 oi = 50002; }
extend google.protobuf.EnumOptions { optional Opt eo = 50000; repeated int32 er = 50001; optional int32 ei = 50002; }
extend google.protobuf.EnumValueOptions { optional Opt evo = 50000; optional int32 evi = 50002; }
extend google.protobuf.ServiceOptions { optional Opt so = 50000; optional int32 si = 50002; }
extend google.protobuf.MethodOptions { optional Opt ro = 50000; repeated int32 rr = 50001; optional int32 ri = 50002; }
extend google.protobuf.ExtensionRangeOptions { optional Opt xo = 50000; optional int32 xi = 50002; }
`

// ---------------------------------------------------------------- locations on the wire

func b03Ints(p []int32) string {
	if len(p) == 0 {
		return "-"
	}
	var sb strings.Builder
	for i, v := range p {
		if i > 0 {
			sb.WriteByte('.')
		}
		sb.WriteString(strconv.Itoa(int(v)))
	}
	return sb.String()
}

func b03OptStr(s *string) string {
	if s == nil {
		return "_"
	}
	return Hex([]byte(*s))
}

func b03Loc(l *descriptorpb.SourceCodeInfo_Location) string {
	d := "_"
	if len(l.LeadingDetachedComments) > 0 {
		parts := make([]string, len(l.LeadingDetachedComments))
		for i, c := range l.LeadingDetachedComments {
			parts[i] = Hex([]byte(c))
		}
		d = strings.Join(parts, ";")
	}
	return "p=" + b03Ints(l.Path) + "/s=" + b03Ints(l.Span) + "/l=" + b03OptStr(l.LeadingComments) +
		"/t=" + b03OptStr(l.TrailingComments) + "/d=" + d
}

func b03Locs(locs []*descriptorpb.SourceCodeInfo_Location) string {
	var sb strings.Builder
	sb.WriteString("n=" + strconv.Itoa(len(locs)))
	for _, l := range locs {
		sb.WriteByte(' ')
		sb.WriteString(b03Loc(l))
	}
	return sb.String()
}

// ---------------------------------------------------------------- AST on the wire

type b03Ser struct {
	out []string
	idx sourceinfo.OptionIndex
}

func (s *b03Ser) w(xs ...string) { s.out = append(s.out, xs...) }
func (s *b03Ser) n(v int)        { s.out = append(s.out, strconv.Itoa(v)) }
func (s *b03Ser) b(v bool) {
	if v {
		s.w("1")
	} else {
		s.w("0")
	}
}
func (s *b03Ser) nd(n ast.Node) { s.n(int(n.Start())); s.n(int(n.End())) }

func b03IsNil(n ast.Node) bool {
	if n == nil {
		return true
	}
	switch v := n.(type) {
	case *ast.KeywordNode:
		return v == nil
	case *ast.RuneNode:
		return v == nil
	case *ast.IdentNode:
		return v == nil
	case *ast.CompactOptionsNode:
		return v == nil
	case *ast.ExtendNode:
		return v == nil
	case *ast.SyntaxNode:
		return v == nil
	case *ast.EditionNode:
		return v == nil
	}
	return false
}

func (s *b03Ser) optnd(n ast.Node) {
	if b03IsNil(n) {
		s.w("0")
		return
	}
	s.w("1")
	s.nd(n)
}

func (s *b03Ser) path(p []int32) {
	s.n(len(p))
	for _, v := range p {
		s.n(int(v))
	}
}

// oval serializes a value node.
func (s *b03Ser) oval(v ast.ValueNode) {
	switch v := v.(type) {
	case *ast.ArrayLiteralNode:
		s.w("a")
		s.nd(v)
		s.n(len(v.Elements))
		for _, e := range v.Elements {
			s.oval(e)
		}
	case *ast.MessageLiteralNode:
		s.w("g")
		s.nd(v)
		s.n(len(v.Elements))
		for _, f := range v.Elements {
			s.w("F")
			s.nd(f)
			s.nd(f.Name)
			s.b(f.Name.IsAnyTypeReference())
			s.oval(f.Val)
		}
	default:
		s.w("s")
		s.nd(v)
	}
}

func (s *b03Ser) absentInfo() { s.w("0", "0", "0", "0") }

// oinfo serializes an OptionSourceInfo aligned with the value node it describes.
func (s *b03Ser) oinfo(info *sourceinfo.OptionSourceInfo, val ast.ValueNode) {
	s.path(info.Path)
	s.w("1")
	switch ch := info.Children.(type) {
	case *sourceinfo.ArrayLiteralSourceInfo:
		s.w("1")
		arr, ok := val.(*ast.ArrayLiteralNode)
		if !ok {
			s.w("0")
			return
		}
		n := len(ch.Elements)
		if len(arr.Elements) < n {
			n = len(arr.Elements)
		}
		s.n(n)
		for i := 0; i < n; i++ {
			s.oinfo(&ch.Elements[i], arr.Elements[i])
		}
	case *sourceinfo.MessageLiteralSourceInfo:
		s.w("2")
		msg, ok := val.(*ast.MessageLiteralNode)
		if !ok {
			s.w("0")
			return
		}
		s.n(len(msg.Elements))
		for _, f := range msg.Elements {
			fi, ok := ch.Fields[f]
			if !ok || fi == nil {
				s.absentInfo()
				continue
			}
			s.oinfo(fi, f.Val)
		}
	default:
		s.w("0", "0")
	}
}

// valTag repeats the type switch of generateSourceCodeInfoForOption (uninterpreted options).
func b03ValTag(v ast.ValueNode) int {
	vt := verifhooks.SrcinfoValueTags()
	switch v.(type) {
	case ast.IdentValueNode:
		return int(vt[0].Val)
	case *ast.NegativeIntLiteralNode:
		return int(vt[1].Val)
	case ast.IntValueNode:
		return int(vt[2].Val)
	case ast.FloatValueNode:
		return int(vt[3].Val)
	case ast.StringValueNode:
		return int(vt[4].Val)
	case *ast.MessageLiteralNode:
		return int(vt[5].Val)
	}
	return 0
}

func (s *b03Ser) opt(o *ast.OptionNode) {
	s.nd(o)
	s.n(len(o.Name.Parts))
	for _, p := range o.Name.Parts {
		s.nd(p)
		s.nd(p.Name)
	}
	s.oval(o.Val)
	s.n(b03ValTag(o.Val))
	if info := s.idx[o]; info != nil {
		s.w("1")
		s.oinfo(info, o.Val)
	} else {
		s.w("0")
	}
}

func (s *b03Ser) optco(c *ast.CompactOptionsNode) {
	if c == nil {
		s.w("0")
		return
	}
	s.w("1")
	s.nd(c)
	els := c.GetElements()
	s.n(len(els))
	for _, o := range els {
		s.opt(o)
	}
}

func (s *b03Ser) fld(f ast.FieldDeclNode) {
	s.nd(f)
	s.b(f.GetGroupKeyword() != nil)
	s.optnd(f.FieldExtendee())
	s.optnd(f.FieldLabel())
	s.nd(f.FieldType())
	scalar := false
	if fn, ok := f.(*ast.FieldNode); ok {
		scalar = verifhooks.SrcinfoIsScalarType(string(fn.FldType.AsIdentifier()))
	}
	s.b(scalar)
	s.nd(f.FieldName())
	s.nd(f.FieldTag())
	s.optco(f.GetOptions())
}

func (s *b03Ser) rng(r *ast.RangeNode) {
	s.nd(r)
	s.nd(r.StartVal)
	switch {
	case r.EndVal != nil:
		s.w("1")
		s.nd(r.EndVal)
	case r.Max != nil:
		s.w("2")
		s.nd(r.Max)
	default:
		s.w("0")
		s.nd(r.StartVal)
	}
}

func (s *b03Ser) decls(n int, at func(i int) ast.Node) {
	s.n(n)
	for i := 0; i < n; i++ {
		s.decl(at(i))
	}
}

func (s *b03Ser) decl(d ast.Node) {
	switch d := d.(type) {
	case *ast.ImportNode:
		s.w("I")
		s.nd(d)
		s.optnd(d.Public)
		s.optnd(d.Weak)
	case *ast.PackageNode:
		s.w("P")
		s.nd(d)
	case *ast.OptionNode:
		s.w("O")
		s.opt(d)
	case *ast.FieldNode:
		s.w("f")
		s.fld(d)
	case *ast.MapFieldNode:
		s.w("m")
		s.fld(d)
	case *ast.GroupNode:
		s.w("G")
		s.fld(d)
		m := d.AsMessage()
		s.nd(m)
		s.nd(d.OpenBrace)
		s.nd(m.MessageName())
		s.decls(len(d.Decls), func(i int) ast.Node { return d.Decls[i] })
	case *ast.MessageNode:
		s.w("M")
		s.nd(d)
		s.nd(d.OpenBrace)
		s.nd(d.MessageName())
		s.decls(len(d.Decls), func(i int) ast.Node { return d.Decls[i] })
	case *ast.OneofNode:
		s.w("N")
		s.nd(d)
		s.nd(d.OpenBrace)
		s.nd(d.Name)
		s.decls(len(d.Decls), func(i int) ast.Node { return d.Decls[i] })
	case *ast.ExtendNode:
		s.w("X")
		s.nd(d)
		s.nd(d.OpenBrace)
		s.decls(len(d.Decls), func(i int) ast.Node { return d.Decls[i] })
	case *ast.EnumNode:
		s.w("E")
		s.nd(d)
		s.nd(d.OpenBrace)
		s.nd(d.Name)
		s.decls(len(d.Decls), func(i int) ast.Node { return d.Decls[i] })
	case *ast.EnumValueNode:
		s.w("v")
		s.nd(d)
		s.nd(d.Name)
		s.nd(d.Number)
		s.optco(d.Options)
	case *ast.ExtensionRangeNode:
		s.w("R")
		s.nd(d)
		s.n(len(d.Ranges))
		for _, r := range d.Ranges {
			s.rng(r)
		}
		s.optco(d.Options)
	case *ast.ReservedNode:
		s.w("V")
		s.nd(d)
		s.n(len(d.Names))
		for _, x := range d.Names {
			s.nd(x)
		}
		s.n(len(d.Identifiers))
		for _, x := range d.Identifiers {
			s.nd(x)
		}
		s.n(len(d.Ranges))
		for _, r := range d.Ranges {
			s.rng(r)
		}
	case *ast.ServiceNode:
		s.w("S")
		s.nd(d)
		s.nd(d.OpenBrace)
		s.nd(d.Name)
		s.decls(len(d.Decls), func(i int) ast.Node { return d.Decls[i] })
	case *ast.RPCNode:
		s.w("r")
		s.nd(d)
		s.optnd(d.OpenBrace)
		s.nd(d.Name)
		s.optnd(d.Input.Stream)
		s.nd(d.Input.MessageType)
		s.optnd(d.Output.Stream)
		s.nd(d.Output.MessageType)
		s.decls(len(d.Decls), func(i int) ast.Node { return d.Decls[i] })
	default:
		s.w("Z")
	}
}

func b03SerializeAST(file *ast.FileNode, idx sourceinfo.OptionIndex) string {
	s := &b03Ser{idx: idx}
	children := file.Children()
	kids := children
	if len(kids) > 0 {
		if r, ok := kids[len(kids)-1].(*ast.RuneNode); ok && r.Rune == 0 {
			kids = kids[:len(kids)-1]
		}
	}
	if len(kids) == 0 {
		s.w("0", "0", "0")
	} else {
		s.w("1")
		s.n(int(file.Start()))
		s.n(int(kids[len(kids)-1].End()))
	}
	s.optnd(file.Syntax)
	s.optnd(file.Edition)
	s.decls(len(file.Decls), func(i int) ast.Node { return file.Decls[i] })
	return strings.Join(s.out, ",")
}

// ---------------------------------------------------------------- running the real pipeline

func b03Reporter() reporter.Reporter {
	return reporter.NewReporter(func(err reporter.ErrorWithPos) error { return err }, func(reporter.ErrorWithPos) {})
}

// b03Env is where a file under test lives: generated files are served from memory next to
// b03opts.proto, calibration files from the repository's internal/testdata.
type b03Env struct {
	path string
	src  []byte
	dir  string // non-empty: resolve imports in this directory
}

func b03Gen(src []byte) b03Env { return b03Env{path: b03TestPath, src: src} }

func (e b03Env) resolver() protocompile.Resolver {
	acc := protocompile.SourceAccessorFromMap(map[string]string{
		e.path:      string(e.src),
		b03OptsPath: b03OptsSrc,
	})
	sr := &protocompile.SourceResolver{Accessor: acc}
	if e.dir != "" {
		mem := map[string]string{e.path: string(e.src)}
		sr = &protocompile.SourceResolver{
			ImportPaths: []string{e.dir},
			Accessor: func(path string) (io.ReadCloser, error) {
				if s, ok := mem[filepath.Base(path)]; ok && filepath.Dir(path) == e.dir {
					return io.NopCloser(strings.NewReader(s)), nil
				}
				return os.Open(path)
			},
		}
	}
	return protocompile.WithStandardImports(sr)
}

// b03Compile runs the real compiler on the file in the given mode.
func b03Compile(e b03Env, mode protocompile.SourceInfoMode) (linker.Result, error) {
	c := protocompile.Compiler{
		Resolver:       e.resolver(),
		SourceInfoMode: mode,
		Reporter:       b03Reporter(),
		RetainASTs:     true,
	}
	fs, err := c.Compile(context.Background(), e.path)
	if err != nil {
		return nil, err
	}
	res, ok := fs[0].(linker.Result)
	if !ok {
		return nil, fmt.Errorf("not a linker.Result")
	}
	return res, nil
}

// b03Facts runs parse → link → interpret options by hand to get the AST and the
// OptionIndex (which Compiler.Compile does not expose).
func b03Facts(e b03Env) (*ast.FileNode, sourceinfo.OptionIndex, error) {
	h := reporter.NewHandler(b03Reporter())
	file, err := parser.Parse(e.path, bytes.NewReader(e.src), h)
	if err != nil {
		return nil, nil, err
	}
	pres, err := parser.ResultFromAST(file, true, h)
	if err != nil {
		return nil, nil, err
	}
	var deps linker.Files
	imports := pres.FileDescriptorProto().GetDependency()
	if len(imports) > 0 {
		c := protocompile.Compiler{Resolver: e.resolver(), Reporter: b03Reporter()}
		fs, err := c.Compile(context.Background(), imports...)
		if err != nil {
			return nil, nil, err
		}
		deps = fs
	}
	linked, err := linker.Link(pres, deps, nil, h)
	if err != nil {
		return nil, nil, err
	}
	idx, err := options.InterpretOptions(linked, h)
	if err != nil {
		return nil, nil, err
	}
	if err := h.Error(); err != nil {
		return nil, nil, err
	}
	return file, idx, nil
}

// b03FileOp builds the `file` op for a source, or "" if the source is not accepted.
func b03FileOp(verb string, e b03Env) string {
	file, idx, err := b03Facts(e)
	if err != nil {
		return ""
	}
	return verb + " " + Hex(e.src) + " " + b03SerializeAST(file, idx)
}

// ---------------------------------------------------------------- descriptor dump for the oracle

// The dump has three parts separated by '|' (the third is the type id of google.protobuf.Any
// or "-", used only to label a failure):
//   schema : entries  T<ty>:<num>:<rep 0|1>:<sub type id|->  for every field (and known extension)
//            of every message type reachable from FileDescriptorProto in this file's values
//            that is NOT part of the static descriptor.proto table of the Lean side is needed;
//            all types are listed anyway (the Lean side checks the static ones against its table)
//   tree   : M<ty>(<num>=<elem>*;...) where <elem> is "s" for a scalar or a nested M...
//
// Type ids: index in b03DescTypes for descriptor.proto messages; 1000+k for other messages in
// order of first appearance.

type b03Dump struct {
	ids    map[protoreflect.FullName]int
	order  []protoreflect.MessageDescriptor
	exts   map[protoreflect.FullName][]protoreflect.FieldDescriptor
	schema []string
	done   map[protoreflect.FullName]bool
}

var b03DescTypeNames = []string{
	"FileDescriptorProto", "DescriptorProto", "FieldDescriptorProto", "OneofDescriptorProto",
	"EnumDescriptorProto", "EnumValueDescriptorProto", "ServiceDescriptorProto", "MethodDescriptorProto",
	"DescriptorProto.ExtensionRange", "DescriptorProto.ReservedRange", "EnumDescriptorProto.EnumReservedRange",
	"FileOptions", "MessageOptions", "FieldOptions", "OneofOptions", "EnumOptions", "EnumValueOptions",
	"ServiceOptions", "MethodOptions", "ExtensionRangeOptions", "UninterpretedOption",
	"UninterpretedOption.NamePart", "FeatureSet", "FieldOptions.EditionDefault", "FieldOptions.FeatureSupport",
	"ExtensionRangeOptions.Declaration", "SourceCodeInfo", "SourceCodeInfo.Location",
	"FeatureSet.VisibilityFeature",
}

func (d *b03Dump) typeID(md protoreflect.MessageDescriptor) int {
	if id, ok := d.ids[md.FullName()]; ok {
		return id
	}
	id := -1
	if md.ParentFile().Path() == "google/protobuf/descriptor.proto" {
		rel := strings.TrimPrefix(string(md.FullName()), "google.protobuf.")
		for i, n := range b03DescTypeNames {
			if n == rel {
				id = i
			}
		}
	}
	if id < 0 {
		id = 1000 + len(d.order)
		d.order = append(d.order, md)
	}
	d.ids[md.FullName()] = id
	return id
}

func (d *b03Dump) fieldEntry(ty int, fd protoreflect.FieldDescriptor) {
	sub := "-"
	if fd.Message() != nil && !fd.IsMap() {
		sub = strconv.Itoa(d.typeID(fd.Message()))
	} else if fd.IsMap() {
		sub = strconv.Itoa(d.typeID(fd.Message()))
	}
	rep := "0"
	if fd.IsList() || fd.IsMap() {
		rep = "1"
	}
	d.schema = append(d.schema, fmt.Sprintf("%d:%d:%s:%s", ty, fd.Number(), rep, sub))
}

func (d *b03Dump) describe(md protoreflect.MessageDescriptor) {
	if d.done[md.FullName()] {
		return
	}
	d.done[md.FullName()] = true
	ty := d.typeID(md)
	fds := md.Fields()
	for i := 0; i < fds.Len(); i++ {
		d.fieldEntry(ty, fds.Get(i))
	}
	for _, x := range d.exts[md.FullName()] {
		d.fieldEntry(ty, x)
	}
	for i := 0; i < fds.Len(); i++ {
		if m := fds.Get(i).Message(); m != nil {
			d.describe(m)
		}
	}
	for _, x := range d.exts[md.FullName()] {
		if m := x.Message(); m != nil {
			d.describe(m)
		}
	}
}

func (d *b03Dump) tree(m protoreflect.Message, sb *strings.Builder) {
	md := m.Descriptor()
	d.describe(md)
	sb.WriteString("M" + strconv.Itoa(d.typeID(md)) + "(")
	type ent struct {
		fd protoreflect.FieldDescriptor
		v  protoreflect.Value
	}
	var ents []ent
	m.Range(func(fd protoreflect.FieldDescriptor, v protoreflect.Value) bool {
		ents = append(ents, ent{fd, v})
		return true
	})
	sort.Slice(ents, func(i, j int) bool { return ents[i].fd.Number() < ents[j].fd.Number() })
	first := true
	for _, e := range ents {
		if md.FullName() == "google.protobuf.FileDescriptorProto" && e.fd.Number() == 9 {
			continue // source_code_info itself
		}
		if !first {
			sb.WriteByte(';')
		}
		first = false
		sb.WriteString(strconv.Itoa(int(e.fd.Number())) + "=")
		switch {
		case e.fd.IsList():
			l := e.v.List()
			for i := 0; i < l.Len(); i++ {
				if e.fd.Message() != nil {
					d.tree(l.Get(i).Message(), sb)
				} else {
					sb.WriteByte('s')
				}
			}
		case e.fd.IsMap():
			// map entries: order is unspecified; only the count is meaningful
			n := e.v.Map().Len()
			for i := 0; i < n; i++ {
				sb.WriteByte('s')
			}
		case e.fd.Message() != nil:
			d.tree(e.v.Message(), sb)
		default:
			sb.WriteByte('s')
		}
	}
	sb.WriteByte(')')
}

// b03DescDump dumps the shape of res's FileDescriptorProto (custom options resolved
// against the file and its imports).
func b03DescDump(res linker.Result) string {
	d := &b03Dump{ids: map[protoreflect.FullName]int{}, exts: map[protoreflect.FullName][]protoreflect.FieldDescriptor{},
		done: map[protoreflect.FullName]bool{}}
	// collect every extension visible in the file and its transitive imports
	seen := map[string]bool{}
	var visit func(f protoreflect.FileDescriptor)
	var collect func(xs protoreflect.ExtensionDescriptors, ms protoreflect.MessageDescriptors)
	collect = func(xs protoreflect.ExtensionDescriptors, ms protoreflect.MessageDescriptors) {
		for i := 0; i < xs.Len(); i++ {
			x := xs.Get(i)
			d.exts[x.ContainingMessage().FullName()] = append(d.exts[x.ContainingMessage().FullName()], x)
		}
		for i := 0; i < ms.Len(); i++ {
			collect(ms.Get(i).Extensions(), ms.Get(i).Messages())
		}
	}
	visit = func(f protoreflect.FileDescriptor) {
		if seen[f.Path()] {
			return
		}
		seen[f.Path()] = true
		collect(f.Extensions(), f.Messages())
		imps := f.Imports()
		for i := 0; i < imps.Len(); i++ {
			visit(imps.Get(i).FileDescriptor)
		}
	}
	visit(res)
	for k := range d.exts {
		xs := d.exts[k]
		sort.Slice(xs, func(i, j int) bool { return xs[i].Number() < xs[j].Number() })
	}
	// re-parse the descriptor with a resolver that knows the extensions, so that custom
	// options are fields rather than unknown bytes
	fdp := proto.Clone(res.FileDescriptorProto()).(*descriptorpb.FileDescriptorProto)
	fdp.SourceCodeInfo = nil
	raw, err := proto.MarshalOptions{Deterministic: true}.Marshal(fdp)
	if err != nil {
		return "dump-error"
	}
	fresh := &descriptorpb.FileDescriptorProto{}
	if err := (proto.UnmarshalOptions{Resolver: linker.ResolverFromFile(res)}).Unmarshal(raw, fresh); err != nil {
		return "dump-error"
	}
	var sb strings.Builder
	d.tree(fresh.ProtoReflect(), &sb)
	b03SortSchema(d.schema)
	anyID := "-"
	if id, ok := d.ids["google.protobuf.Any"]; ok {
		anyID = strconv.Itoa(id)
	}
	return strings.Join(d.schema, ",") + "|" + sb.String() + "|" + anyID
}

// b03SortSchema orders "ty:num:rep:sub" entries by (ty, num) numerically.
func b03SortSchema(es []string) {
	key := func(e string) (int, int) {
		f := strings.SplitN(e, ":", 3)
		a, _ := strconv.Atoi(f[0])
		b, _ := strconv.Atoi(f[1])
		return a, b
	}
	sort.Slice(es, func(i, j int) bool {
		a1, b1 := key(es[i])
		a2, b2 := key(es[j])
		return a1 < a2 || (a1 == a2 && b1 < b2)
	})
}

// b03Schema is the static part: descriptorpb's own reflection schema for the message types of
// b03DescTypeNames, in the format of the Lean table.
func b03Schema() string {
	d := &b03Dump{ids: map[protoreflect.FullName]int{}, exts: map[protoreflect.FullName][]protoreflect.FieldDescriptor{},
		done: map[protoreflect.FullName]bool{}}
	d.describe((&descriptorpb.FileDescriptorProto{}).ProtoReflect().Descriptor())
	var keep []string
	for _, e := range d.schema {
		ty, _ := strconv.Atoi(e[:strings.Index(e, ":")])
		if ty < 1000 {
			keep = append(keep, e)
		}
	}
	b03SortSchema(keep)
	return strings.Join(keep, ",")
}

// ---------------------------------------------------------------- engine: srcinfo

type srcinfoEngine struct {
	src []byte
	ok  bool
}

func init() {
	Register("srcinfo", func() Engine { return &srcinfoEngine{} })
	Register("comments", func() Engine { return &commentsEngine{} })
}

func (e *srcinfoEngine) Name() string { return "srcinfo" }
func (e *srcinfoEngine) Reset()       { e.src, e.ok = nil, false }

func b03ErrClass(err error) string {
	if _, ok := err.(protocompile.PanicError); ok {
		return "panic"
	}
	return "rejected"
}

func b03LexSummary(file *ast.FileNode) string {
	fi := file.VerifFileInfo()
	cms := fi.VerifComments()
	parts := make([]string, len(cms))
	for i, c := range cms {
		parts[i] = strconv.Itoa(c[0]) + ":" + strconv.Itoa(c[1])
	}
	cm := "-"
	if len(parts) > 0 {
		cm = strings.Join(parts, ",")
	}
	return fmt.Sprintf("items=%d lines=%d cm=%s", len(fi.VerifItems()), len(fi.VerifLines()), cm)
}

func (e *srcinfoEngine) Exec(op string) string {
	w := strings.Fields(op)
	switch {
	case len(w) == 1 && w[0] == "tags":
		var parts []string
		for _, t := range verifhooks.SrcinfoTags() {
			parts = append(parts, t.Name+"="+strconv.Itoa(int(t.Val)))
		}
		for _, t := range verifhooks.SrcinfoValueTags() {
			parts = append(parts, t.Name+"="+strconv.Itoa(int(t.Val)))
		}
		return strings.Join(parts, " ")
	case len(w) == 1 && w[0] == "schema":
		return b03Schema()
	case len(w) == 3 && w[0] == "file":
		e.src, e.ok = UnHex(w[1]), false
		file, idx, err := b03Facts(b03Gen(e.src))
		if err != nil {
			return "err " + b03ErrClass(err)
		}
		if got := b03SerializeAST(file, idx); got != w[2] {
			return "ast-differs ~ " + got
		}
		res, err := b03Compile(b03Gen(e.src), protocompile.SourceInfoStandard)
		if err != nil {
			return "err " + b03ErrClass(err)
		}
		e.ok = true
		return "ok " + b03LexSummary(file) + " ~ " + b03DescDump(res)
	case len(w) == 2 && w[0] == "mode":
		m, err := strconv.Atoi(w[1])
		if err != nil || !e.ok {
			return "bad-op"
		}
		res, err := b03Compile(b03Gen(e.src), protocompile.SourceInfoMode(m))
		if err != nil {
			return "err " + b03ErrClass(err)
		}
		return "ok " + b03Locs(res.FileDescriptorProto().GetSourceCodeInfo().GetLocation())
	case len(w) == 2 && w[0] == "conc":
		rounds, err := strconv.Atoi(w[1])
		if err != nil || !e.ok {
			return "bad-op"
		}
		return b03Conc(e.src, rounds)
	case len(w) == 2 && w[0] == "raw":
		// the public entry point without an option index: every option is uninterpreted
		m, err := strconv.Atoi(w[1])
		if err != nil || !e.ok {
			return "bad-op"
		}
		h := reporter.NewHandler(b03Reporter())
		file, err := parser.Parse(b03TestPath, bytes.NewReader(e.src), h)
		if err != nil {
			return "err rejected"
		}
		var opts []sourceinfo.GenerateOption
		if m&2 != 0 {
			opts = append(opts, sourceinfo.WithExtraComments())
		}
		if m&4 != 0 {
			opts = append(opts, sourceinfo.WithExtraOptionLocations())
		}
		return "ok " + b03Locs(sourceinfo.GenerateSourceInfo(file, nil, opts...).GetLocation())
	}
	return "bad-op"
}

func b03GenOpts(m int) []sourceinfo.GenerateOption {
	var opts []sourceinfo.GenerateOption
	if m&2 != 0 {
		opts = append(opts, sourceinfo.WithExtraComments())
	}
	if m&4 != 0 {
		opts = append(opts, sourceinfo.WithExtraOptionLocations())
	}
	return opts
}

// b03Conc: an *ast.FileNode is documented as shareable (SearchResult.AST); whatever several
// goroutines compute from one AST at the same time must be what each of them computes alone.
func b03Conc(src []byte, rounds int) string {
	file, idx, err := b03Facts(b03Gen(src))
	if err != nil {
		return "err " + b03ErrClass(err)
	}
	modes := []int{1, 2, 4, 6}
	ref := map[int]string{}
	for _, m := range modes {
		ref[m] = b03Locs(sourceinfo.GenerateSourceInfo(file, idx, b03GenOpts(m)...).GetLocation())
	}
	base := b03Gen(src).resolver()
	shared := protocompile.ResolverFunc(func(path string) (protocompile.SearchResult, error) {
		if path == b03TestPath {
			return protocompile.SearchResult{AST: file}, nil
		}
		return base.FindFileByPath(path)
	})
	const workers = 8
	var ready atomic.Int32
	var wg sync.WaitGroup
	bad := make([]string, workers)
	for i := 0; i < workers; i++ {
		wg.Add(1)
		go func(i int) {
			defer wg.Done()
			defer func() {
				if r := recover(); r != nil {
					bad[i] = "panic " + Canon(fmt.Sprint(r))
				}
			}()
			m := modes[i%len(modes)]
			opts := b03GenOpts(m)
			ready.Add(1)
			for ready.Load() < workers {
				// spin barrier: all goroutines start within nanoseconds of each other
			}
			for k := 0; k < rounds; k++ {
				got := b03Locs(sourceinfo.GenerateSourceInfo(file, idx, opts...).GetLocation())
				if got != ref[m] && bad[i] == "" {
					bad[i] = fmt.Sprintf("differs m=%d via=direct %s", m, got)
				}
			}
			c := protocompile.Compiler{Resolver: shared, SourceInfoMode: protocompile.SourceInfoMode(m),
				Reporter: b03Reporter(), RetainASTs: true}
			fs, err := c.Compile(context.Background(), b03TestPath)
			if err != nil {
				if bad[i] == "" {
					bad[i] = fmt.Sprintf("differs m=%d via=compile err %s", m, b03ErrClass(err))
				}
				return
			}
			res, ok := fs[0].(linker.Result)
			if !ok {
				return
			}
			got := b03Locs(res.FileDescriptorProto().GetSourceCodeInfo().GetLocation())
			if got != ref[m] && bad[i] == "" {
				bad[i] = fmt.Sprintf("differs m=%d via=compile %s", m, got)
			}
		}(i)
	}
	wg.Wait()
	for _, b := range bad {
		if b != "" {
			return b
		}
	}
	return "ok"
}

// b03LongLines: declarations packed on very long lines (a position far into a line costs a long
// column scan: the window for goroutines to interfere in position bookkeeping grows with it).
func b03LongLines(n int) string {
	var sb strings.Builder
	sb.WriteString("syntax = \"proto3\"; import \"b03opts.proto\"; message M {")
	for i := 1; i <= n; i++ {
		fmt.Fprintf(&sb, " /* c%d */ int32 f%d = %d [json_name = \"j%d\", (b03.fdi) = %d];", i, i, i, i, i)
	}
	sb.WriteString(" } enum E {")
	for i := 0; i < n; i++ {
		fmt.Fprintf(&sb, " V%d = %d [(b03.evo) = { a: %d r: [1, 2] }];", i, i, i)
	}
	sb.WriteString(" }\nservice S {")
	for i := 0; i < n/4; i++ {
		fmt.Fprintf(&sb, "\trpc R%d(M) returns (stream M) { option deprecated = true; }", i)
	}
	sb.WriteString(" }\n")
	return sb.String()
}

func (e *srcinfoEngine) Trivial(op, ans string) bool {
	return strings.HasPrefix(ans, "ok n=1 ") || op == "tags" || op == "schema"
}

func (e *srcinfoEngine) Class(op, ans string) string {
	w := strings.Fields(op)
	if len(w) == 0 {
		return "?"
	}
	cls := w[0]
	if w[0] == "mode" && len(w) > 1 {
		cls += w[1]
	}
	if strings.HasPrefix(ans, "err") {
		cls += ":err"
	}
	return cls
}

// ---------------------------------------------------------------- engine: comments

type commentsEngine struct{}

func (e *commentsEngine) Name() string { return "comments" }
func (e *commentsEngine) Reset()       {}

func b03ItemList(xs []int) string {
	if len(xs) == 0 {
		return "-"
	}
	parts := make([]string, len(xs))
	for i, x := range xs {
		parts[i] = strconv.Itoa(x)
	}
	return strings.Join(parts, ".")
}

// b03Pairs: for every token (in order, EOF included) the attribution of the comments between
// it and the previous token; pairs without any comment are omitted.
func b03Pairs(src []byte, ec bool) string {
	h := reporter.NewHandler(b03Reporter())
	file, err := parser.Parse(b03TestPath, bytes.NewReader(src), h)
	if err != nil || file == nil {
		return "err rejected"
	}
	var out []string
	toks := file.Tokens()
	tok, ok := toks.First()
	hasPrev := false
	var prev ast.Token
	for ok {
		a := sourceinfo.VerifAttributeComments(file, ec, hasPrev, prev, tok)
		if len(a.Trailing)+len(a.Leading)+len(a.Detached) > 0 {
			var det, detTxt []string
			for i, g := range a.Detached {
				det = append(det, b03ItemList(g))
				detTxt = append(detTxt, Hex([]byte(a.DetachedText[i])))
			}
			d, dt := "-", "_"
			if len(det) > 0 {
				d, dt = strings.Join(det, ";"), strings.Join(detTxt, ";")
			}
			tt, lt := "_", "_"
			if len(a.Trailing) > 0 {
				tt = Hex([]byte(a.TrailingText))
			}
			if len(a.Leading) > 0 {
				lt = Hex([]byte(a.LeadingText))
			}
			out = append(out, fmt.Sprintf("%d/t=%s/d=%s/l=%s/T=%s/D=%s/L=%s", int(tok), b03ItemList(a.Trailing), d,
				b03ItemList(a.Leading), tt, dt, lt))
		}
		hasPrev, prev = true, tok
		tok, ok = toks.Next(tok)
	}
	return "ok " + b03LexSummary(file) + " n=" + strconv.Itoa(len(out)) + " " + strings.Join(out, " ")
}

func (e *commentsEngine) Exec(op string) string {
	w := strings.Fields(op)
	switch {
	case len(w) == 4 && w[0] == "pairs":
		return strings.TrimRight(b03Pairs(UnHex(w[2]), w[1] == "1"), " ")
	case len(w) == 5 && w[0] == "span":
		var v [4]int
		for i := range v {
			x, err := strconv.Atoi(w[i+1])
			if err != nil {
				return "bad-op"
			}
			v[i] = x
		}
		return b03Ints(b03MakeSpan(v))
	case len(w) == 1 && w[0] == "calib-summary":
		return "ok"
	case len(w) == 4 && w[0] == "calib":
		env := b03CalibEnv(w[1], UnHex(w[2]))
		file, idx, err := b03Facts(env)
		if err != nil {
			return "err " + b03ErrClass(err)
		}
		if got := b03SerializeAST(file, idx); got != w[3] {
			return "ast-differs ~ " + got
		}
		res, err := b03Compile(env, protocompile.SourceInfoStandard)
		if err != nil {
			return "err " + b03ErrClass(err)
		}
		want, err := b03ProtocLocs(w[1])
		if err != nil {
			return "err protoset " + Canon(err.Error())
		}
		return "ok " + b03Locs(res.FileDescriptorProto().GetSourceCodeInfo().GetLocation()) + " ~ " + b03Locs(want)
	}
	return "bad-op"
}

func b03MakeSpan(v [4]int) []int32 { return sourceinfo.VerifMakeSpan(v[0], v[1], v[2], v[3]) }

func (e *commentsEngine) Class(op, ans string) string {
	w := strings.Fields(op)
	if len(w) == 0 {
		return "?"
	}
	return w[0]
}

func (e *commentsEngine) Trivial(op, ans string) bool {
	return strings.HasSuffix(ans, " n=0")
}

// ---------------------------------------------------------------- calibration data (protoc output in the repository)

func b03TestdataDir() string {
	return filepath.Join(verifhooks.SrcinfoRepoRoot(), "internal", "testdata")
}

func b03CalibEnv(name string, src []byte) b03Env {
	return b03Env{path: name, src: src, dir: b03TestdataDir()}
}

func b03Testdata(name string) ([]byte, error) {
	return os.ReadFile(filepath.Join(verifhooks.SrcinfoRepoRoot(), "internal", "testdata", name))
}

// The two corrections sourceinfo/source_code_info_test.go (protocFixers) applies to protoc's
// output before comparing, with the test's own path patterns.
var (
	b03DefaultValuePats = []*regexp.Regexp{
		regexp.MustCompile(`^4,\d+,(?:3,\d+,)*2,\d+,7$`),
		regexp.MustCompile(`^7,\d+,7$`),
		regexp.MustCompile(`^4,\d+,(?:3,\d+,)*7,\d+,7$`),
	}
	b03JSONNamePats = []*regexp.Regexp{
		regexp.MustCompile(`^4,\d+,(?:3,\d+,)*2,\d+,10$`),
	}
)

func b03MatchAny(ps []*regexp.Regexp, s string) bool {
	for _, p := range ps {
		if p.MatchString(s) {
			return true
		}
	}
	return false
}

// b03ProtocLocs returns protoc's locations for the named file from source_info.protoset with
// the corrections of fixupProtocSourceCodeInfo applied (same algorithm: one fixer per location,
// "previous" is the previous location of the already corrected list).
func b03ProtocLocs(name string) ([]*descriptorpb.SourceCodeInfo_Location, error) {
	raw, err := b03Testdata("source_info.protoset")
	if err != nil {
		return nil, err
	}
	var set descriptorpb.FileDescriptorSet
	if err := (proto.UnmarshalOptions{AllowPartial: true}).Unmarshal(raw, &set); err != nil {
		return nil, err
	}
	for _, fd := range set.File {
		if fd.GetName() != name {
			continue
		}
		var out []*descriptorpb.SourceCodeInfo_Location
		for _, l := range fd.GetSourceCodeInfo().GetLocation() {
			ps := strings.ReplaceAll(b03Ints(l.Path), ".", ",")
			switch {
			case b03MatchAny(b03DefaultValuePats, ps):
				// protobuf issue 10478: the span of default_value excludes "default = "
				l = proto.Clone(l).(*descriptorpb.SourceCodeInfo_Location)
				l.Span[1] -= 10
			case b03MatchAny(b03JSONNamePats, ps):
				if len(out) > 0 && b03Ints(out[len(out)-1].Path) == b03Ints(l.Path) {
					continue // second span for json_name
				}
			}
			out = append(out, l)
		}
		return out, nil
	}
	return nil, fmt.Errorf("no file %s", name)
}

// ---------------------------------------------------------------- generator: text → tokens → text with trivia

// b03Tokenize cuts well-formed proto text (no comments) into the lexer's tokens.
func b03Tokenize(text string) []string {
	var toks []string
	i := 0
	isWord := func(c byte) bool {
		return c == '_' || (c >= 'a' && c <= 'z') || (c >= 'A' && c <= 'Z') || (c >= '0' && c <= '9')
	}
	for i < len(text) {
		c := text[i]
		switch {
		case c == ' ' || c == '\n' || c == '\t' || c == '\r':
			i++
		case c == '"' || c == '\'':
			j := i + 1
			for j < len(text) && text[j] != c {
				if text[j] == '\\' {
					j++
				}
				j++
			}
			toks = append(toks, text[i:j+1])
			i = j + 1
		case c >= '0' && c <= '9':
			j := i
			for j < len(text) && (isWord(text[j]) || text[j] == '.' ||
				((text[j] == '-' || text[j] == '+') && (text[j-1] == 'e' || text[j-1] == 'E'))) {
				j++
			}
			toks = append(toks, text[i:j])
			i = j
		case isWord(c):
			j := i
			for j < len(text) && isWord(text[j]) {
				j++
			}
			toks = append(toks, text[i:j])
			i = j
		default:
			toks = append(toks, text[i:i+1])
			i++
		}
	}
	return toks
}

func b03Wordy(c byte) bool {
	return c == '_' || c == '.' || (c >= 'a' && c <= 'z') || (c >= 'A' && c <= 'Z') || (c >= '0' && c <= '9')
}

// b03Trivia produces the text between tokens.
type b03Trivia struct {
	r        *Rand
	pComment int // percent of gaps that carry comments
	pNewline int // percent of plain gaps that are line breaks
	crlf     bool
	exotic   bool // tabs, multi-byte characters, odd block comment shapes
}

func (t *b03Trivia) nl() string {
	if t.crlf {
		return "\r\n"
	}
	return "\n"
}

var b03Words = []string{"c", "lead", "trail x", "a b c", "TODO: y", "*", "/", " ", ""}
var b03ExoticWords = []string{"é", "这个", "😀 z", "\tq", "x\ty", "* star", "** d", "-", "a*/b"[0:2]}

func (t *b03Trivia) word() string {
	if t.exotic && t.r.Chance(1, 3) {
		return Pick(t.r, b03ExoticWords)
	}
	return Pick(t.r, b03Words)
}

func (t *b03Trivia) lineComment() string {
	w := t.word()
	if strings.ContainsAny(w, "\n") {
		w = "c"
	}
	switch t.r.Intn(4) {
	case 0:
		return "//" + w
	case 1:
		return "///" + w
	default:
		return "// " + w
	}
}

func (t *b03Trivia) blockComment() string {
	w := strings.ReplaceAll(t.word(), "*/", "")
	nl := t.nl()
	switch t.r.Intn(8) {
	case 0:
		return "/**/"
	case 1:
		return "/*" + w + "*/"
	case 2:
		return "/** " + w + " */"
	case 3:
		return "/*" + nl + " * " + w + nl + " * " + t.word() + nl + " */"
	case 4:
		return "/* " + w + nl + "   more" + nl + "\t* tabbed" + nl + "*/"
	case 5:
		return "/* " + w + nl + nl + "  *" + nl + "*x */"
	default:
		return "/* " + w + " */"
	}
}

func (t *b03Trivia) ws(mustBreak bool) string {
	nl := t.nl()
	if mustBreak {
		switch t.r.Intn(5) {
		case 0:
			return nl + nl
		case 1:
			return nl + "  "
		case 2:
			return nl + nl + nl + "\t"
		default:
			return nl
		}
	}
	switch t.r.Intn(10) {
	case 0:
		return ""
	case 1:
		return nl
	case 2:
		return nl + nl
	case 3:
		if t.exotic {
			return "\t"
		}
		return "  "
	case 4:
		return nl + "    "
	default:
		return " "
	}
}

// comments renders a run of 1..3 comments with whitespace around them.
func (t *b03Trivia) comments() string {
	var sb strings.Builder
	sb.WriteString(t.ws(false))
	n := 1 + t.r.Intn(3)
	if t.r.Chance(1, 10) {
		n = 4 + t.r.Intn(2)
	}
	for i := 0; i < n; i++ {
		if t.r.Chance(1, 2) {
			sb.WriteString(t.lineComment())
			sb.WriteString(t.ws(true))
		} else {
			sb.WriteString(t.blockComment())
			sb.WriteString(t.ws(false))
		}
	}
	return sb.String()
}

func (t *b03Trivia) gap(left, right string) string {
	var g string
	switch {
	case t.r.Intn(100) < t.pComment:
		g = t.comments()
	case t.r.Intn(100) < t.pNewline:
		g = t.ws(true)
	default:
		g = " "
		if t.r.Chance(1, 6) {
			g = ""
		}
	}
	if g == "" && left != "" && right != "" && b03Wordy(left[len(left)-1]) && b03Wordy(right[0]) {
		g = " "
	}
	// "/" never ends a token here, but a '.' directly before a digit would lex as a float
	return g
}

// b03Render joins tokens with generated trivia. Declaration boundaries (after ; { }) get line
// breaks more often so that the text looks like source code.
func b03Render(toks []string, t *b03Trivia) []byte {
	var sb strings.Builder
	if t.r.Chance(1, 3) {
		sb.WriteString(t.comments())
		if sb.Len() > 0 && !strings.HasSuffix(sb.String(), "\n") && t.r.Chance(1, 2) {
			sb.WriteString(t.nl())
		}
	}
	for i, tok := range toks {
		sb.WriteString(tok)
		if i+1 < len(toks) {
			g := t.gap(tok, toks[i+1])
			if (tok == ";" || tok == "{" || tok == "}") && !strings.Contains(g, "\n") && t.r.Chance(2, 3) {
				g += t.nl()
			}
			sb.WriteString(g)
		}
	}
	// end of file
	switch t.r.Intn(6) {
	case 0:
	case 1:
		sb.WriteString(" " + t.lineComment())
	case 2:
		sb.WriteString(t.nl() + t.lineComment() + t.nl())
	case 3:
		sb.WriteString(t.comments())
	default:
		sb.WriteString(t.nl())
	}
	return []byte(sb.String())
}

// ---------------------------------------------------------------- generator: random proto text

type b03TG struct {
	r      *Rand
	sb     strings.Builder
	syn    int // 0 = no syntax statement, 2, 3, 23 (edition 2023)
	pkg    string
	msgs   []string
	enums  []string
	nm     int
	rich   bool // options and message literals
	depth  int
	budget int
	// maxDepth bounds the nesting of messages; mostly 3, sometimes up to 12 (path lengths beyond
	// the initial capacity of the path slice and around every slices.Clone capacity class)
	maxDepth int
}

func (g *b03TG) p(format string, a ...any) { fmt.Fprintf(&g.sb, format, a...) }

func (g *b03TG) name(prefix string) string {
	g.nm++
	return prefix + strconv.Itoa(g.nm)
}

func (g *b03TG) proto2() bool { return g.syn == 0 || g.syn == 2 }

var b03Scalars = []string{"int32", "int64", "uint32", "sint64", "fixed32", "sfixed64", "bool", "string", "bytes", "double", "float"}

func (g *b03TG) msgLit(depth int) string {
	var fs []string
	used := map[string]bool{}
	n := g.r.Intn(4)
	if depth == 0 {
		n++
	}
	for i := 0; i < n; i++ {
		k := g.r.Intn(12)
		var f string
		switch k {
		case 0:
			if used["a"] {
				continue
			}
			used["a"] = true
			f = "a: " + strconv.Itoa(g.r.Intn(9))
			if g.r.Chance(1, 4) {
				f = "a: -" + strconv.Itoa(1+g.r.Intn(9))
			}
		case 1:
			switch g.r.Intn(4) {
			case 0:
				f = "r: []"
			case 1:
				f = "r: [1, 2, 3]"
			case 2:
				f = "r: 4 r: 5"
			default:
				f = "r: [7]"
			}
		case 2:
			if used["sub"] || depth > 2 {
				continue
			}
			used["sub"] = true
			inner := g.msgLit(depth + 1)
			switch g.r.Intn(3) {
			case 0:
				f = "sub " + inner
			case 1:
				f = "sub: " + inner
			default:
				f = "sub <" + strings.TrimSuffix(strings.TrimPrefix(inner, "{"), "}") + ">"
			}
		case 3:
			if depth > 2 {
				continue
			}
			switch g.r.Intn(3) {
			case 0:
				f = "subs: [" + g.msgLit(depth+1) + ", " + g.msgLit(depth+1) + "]"
			case 1:
				f = "subs " + g.msgLit(depth+1) + " subs " + g.msgLit(depth+1)
			default:
				f = "subs: [" + g.msgLit(depth+1) + "]"
			}
		case 4:
			if used["s"] {
				continue
			}
			used["s"] = true
			f = `s: "x"`
			if g.r.Chance(1, 3) {
				f = `s: "a" 'b'`
			}
		case 5:
			if used["any"] || depth > 1 {
				continue
			}
			used["any"] = true
			if g.r.Chance(1, 2) {
				f = "any: { [type.googleapis.com/b03.Opt] " + g.msgLit(depth+2) + " }"
			} else {
				f = "any { [type.googleapis.com/b03.Opt]: " + g.msgLit(depth+2) + " }"
			}
		case 6:
			f = `rs: ["p", "q"]`
		case 7:
			if used["k"] {
				continue
			}
			used["k"] = true
			f = "k: K1"
		case 8:
			if used["xa"] {
				continue
			}
			used["xa"] = true
			f = "[b03.xa]: 5"
		case 9:
			if used["xsub"] || depth > 2 {
				continue
			}
			used["xsub"] = true
			f = "[b03.xsub] " + g.msgLit(depth+1)
		default:
			continue
		}
		switch g.r.Intn(4) {
		case 0:
			f += ","
		case 1:
			f += ";"
		}
		fs = append(fs, f)
	}
	return "{ " + strings.Join(fs, " ") + " }"
}

// optionAssignments returns a few `name = value` texts valid for an element kind; pfx is the
// custom option prefix of b03opts.proto ("" = kind has none).
func (g *b03TG) optionAssignments(std []string, pfx string, max int) []string {
	var out []string
	if len(std) > 0 && g.r.Chance(1, 2) {
		out = append(out, Pick(g.r, std))
	}
	if g.rich && pfx != "" {
		if g.r.Chance(1, 2) {
			switch g.r.Intn(3) {
			case 0:
				out = append(out, "(b03."+pfx+"o) = "+g.msgLit(0))
			case 1:
				out = append(out, "(b03."+pfx+"o).a = 3", "(b03."+pfx+"o).sub.s = 'q'")
			default:
				out = append(out, "(b03."+pfx+"o).subs = "+g.msgLit(1), "(b03."+pfx+"o).subs = "+g.msgLit(1))
			}
		}
		if g.r.Chance(1, 3) {
			out = append(out, "(b03."+pfx+"i) = "+strconv.Itoa(g.r.Intn(100)))
		}
		if g.r.Chance(1, 3) && (pfx == "f" || pfx == "m" || pfx == "fd" || pfx == "e" || pfx == "r") {
			out = append(out, "(b03."+pfx+"r) = 1", "(.b03."+pfx+"r) = 2")
		}
	}
	b03Shuffle(g.r, out)
	if len(out) > max {
		out = out[:max]
	}
	return out
}

func b03Shuffle(r *Rand, xs []string) {
	for i := len(xs) - 1; i > 0; i-- {
		j := r.Intn(i + 1)
		xs[i], xs[j] = xs[j], xs[i]
	}
}

func (g *b03TG) optionStmts(std []string, pfx string) {
	for _, a := range g.optionAssignments(std, pfx, 4) {
		g.p("option %s;\n", a)
	}
}

func (g *b03TG) compact(std []string, pfx string) string {
	as := g.optionAssignments(std, pfx, 3)
	if len(as) == 0 {
		return ""
	}
	return " [" + strings.Join(as, ", ") + "]"
}

func (g *b03TG) fieldType() (string, bool) {
	switch {
	case len(g.msgs) > 0 && g.r.Chance(1, 4):
		m := Pick(g.r, g.msgs)
		if g.pkg != "" && g.r.Chance(1, 3) {
			return "." + g.pkg + "." + m, false
		}
		return m, false
	case len(g.enums) > 0 && g.r.Chance(1, 5):
		return Pick(g.r, g.enums), false
	}
	return Pick(g.r, b03Scalars), true
}

func (g *b03TG) field(num int, inOneof bool) {
	ty, scalar := g.fieldType()
	label := ""
	if !inOneof {
		switch g.syn {
		case 0, 2:
			label = Pick(g.r, []string{"optional ", "required ", "repeated ", "optional "})
		case 3:
			label = Pick(g.r, []string{"", "optional ", "repeated ", ""})
		default:
			label = Pick(g.r, []string{"", "repeated ", ""})
		}
	}
	var std []string
	std = append(std, "deprecated = true", `json_name = "j`+strconv.Itoa(num)+`"`)
	if scalar && g.syn != 3 && !strings.HasPrefix(label, "repeated") {
		switch ty {
		case "bool":
			std = append(std, "default = true")
		case "string", "bytes":
			std = append(std, `default = "d"`)
		case "double", "float":
			std = append(std, "default = -1.5", "default = inf")
		default:
			std = append(std, "default = 7")
		}
	}
	co := ""
	if g.r.Chance(1, 3) {
		co = g.compact(std, "fd")
	}
	g.p("%s%s %s = %d%s;\n", label, ty, g.name("f"), num, co)
}

func (g *b03TG) enum() string {
	n := g.name("E")
	g.p("enum %s {\n", n)
	if g.r.Chance(1, 3) {
		g.optionStmts([]string{"deprecated = true", "allow_alias = false"}, "e")
	}
	k := 1 + g.r.Intn(3)
	for i := 0; i < k; i++ {
		co := ""
		if g.r.Chance(1, 3) {
			co = g.compact([]string{"deprecated = true"}, "ev")
		}
		val := strconv.Itoa(i)
		if i > 0 && g.r.Chance(1, 5) && g.syn != 23 {
			val = "-" + val
		}
		g.p("%s_V%d = %s%s;\n", strings.ToUpper(n), i, val, co)
		if i == 0 && g.r.Chance(1, 4) {
			g.optionStmts([]string{"deprecated = false"}, "")
		}
	}
	if g.r.Chance(1, 4) {
		g.p("reserved 100, 200 to 300, 1000 to max;\n")
		if g.syn == 23 {
			g.p("reserved OLD_%s, OLDER;\n", n)
		} else {
			g.p("reserved \"OLD_%s\", 'OLDER';\n", n)
		}
	}
	g.p("}\n")
	return n
}

func (g *b03TG) message(depth int) string {
	n := g.name("M")
	g.p("message %s {\n", n)
	num := 1
	k := g.r.Intn(6)
	if depth > 2 {
		k = g.r.Intn(2)
		if g.maxDepth > 3 {
			k = g.r.Intn(4)
		}
	}
	if g.maxDepth > 3 && depth+1 < g.maxDepth {
		// deep mode: a chain of nested messages down to maxDepth, declarations at every level
		if g.r.Chance(1, 2) {
			g.field(num, false)
			num++
		}
		g.message(depth + 1)
	}
	for i := 0; i < k && g.budget > 0; i++ {
		g.budget--
		switch g.r.Intn(14) {
		case 0, 1, 2, 3:
			g.field(num, false)
			num++
		case 4:
			g.optionStmts([]string{"deprecated = true", "no_standard_descriptor_accessor = false"}, "m")
		case 5:
			if depth+1 < g.maxDepth {
				g.message(depth + 1)
			}
		case 6:
			g.enum()
		case 7:
			g.p("oneof %s {\n", g.name("o"))
			if g.r.Chance(1, 3) {
				g.optionStmts(nil, "o")
			}
			m := 1 + g.r.Intn(2)
			for j := 0; j < m; j++ {
				if g.proto2() && g.r.Chance(1, 3) {
					g.p("group %s = %d { optional int32 %s = 1; }\n", g.name("G"), num, g.name("f"))
				} else {
					g.field(num, true)
				}
				num++
			}
			g.p("}\n")
		case 8:
			g.p("map<%s, %s> %s = %d%s;\n", Pick(g.r, []string{"string", "int32", "bool"}),
				Pick(g.r, []string{"string", "int64", "bytes"}), g.name("mp"), num,
				g.compact([]string{"deprecated = true"}, ""))
			num++
		case 9:
			if g.proto2() {
				label := Pick(g.r, []string{"optional", "repeated", "required"})
				g.p("%s group %s = %d%s {\n", label, g.name("G"), num, g.compact([]string{"deprecated = true"}, "fd"))
				num++
				if g.r.Chance(1, 2) {
					g.p("optional int32 %s = 1;\n", g.name("f"))
				}
				if g.r.Chance(1, 3) {
					g.optionStmts([]string{"deprecated = true"}, "m")
				}
				if g.r.Chance(1, 4) {
					g.p("optional group %s = 2 { }\n", g.name("G"))
				}
				g.p("}\n")
			}
		case 10:
			if g.proto2() {
				lo := 1000 * (1 + i)
				switch g.r.Intn(3) {
				case 0:
					g.p("extensions %d;\n", lo)
				case 1:
					g.p("extensions %d to %d, %d%s;\n", lo, lo+10, lo+20, g.compact(nil, "x"))
				default:
					g.p("extensions %d to %d%s;\n", lo, lo+99, g.compact(nil, "x"))
				}
			}
		case 11:
			lo := 20000 + 100*i
			switch g.r.Intn(3) {
			case 0:
				g.p("reserved %d;\n", lo)
			case 1:
				g.p("reserved %d, %d to %d;\n", lo, lo+2, lo+9)
			default:
				if g.syn == 23 {
					g.p("reserved old_%d, older_%d;\n", i, i)
				} else {
					g.p("reserved \"old_%d\", \"older_%d\";\n", i, i)
				}
			}
		case 12:
			if g.proto2() && depth+1 < g.maxDepth+1 {
				// an extendable message and an extend block next to it
				b := g.name("B")
				g.p("message %s { extensions 1 to 100; }\n", b)
				g.p("extend %s {\n", b)
				g.p("optional int32 %s = 1%s;\n", g.name("x"), g.compact([]string{"deprecated = true"}, "fd"))
				if g.r.Chance(1, 2) {
					g.p("repeated group %s = 2 { optional bool %s = 1; }\n", g.name("G"), g.name("f"))
				}
				g.p("}\n")
			}
		default:
			g.field(num, false)
			num++
		}
	}
	g.p("}\n")
	return n
}

func (g *b03TG) service() {
	if len(g.msgs) == 0 {
		g.msgs = append(g.msgs, g.message(3))
	}
	g.p("service %s {\n", g.name("S"))
	k := g.r.Intn(4)
	for i := 0; i < k; i++ {
		if g.r.Chance(1, 4) {
			g.optionStmts([]string{"deprecated = true"}, "s")
			continue
		}
		in, out := Pick(g.r, g.msgs), Pick(g.r, g.msgs)
		if g.r.Chance(1, 3) {
			in = "stream " + in
		}
		if g.r.Chance(1, 3) {
			out = "stream " + out
		}
		if g.r.Chance(1, 2) {
			g.p("rpc %s(%s) returns (%s);\n", g.name("R"), in, out)
		} else {
			g.p("rpc %s(%s) returns (%s) {\n", g.name("R"), in, out)
			g.optionStmts([]string{"deprecated = true", "idempotency_level = IDEMPOTENT"}, "r")
			g.p("}\n")
		}
	}
	g.p("}\n")
}

func (g *b03TG) file() string {
	switch g.syn {
	case 2:
		g.p("syntax = \"proto2\";\n")
	case 3:
		g.p("syntax = 'proto3';\n")
	case 23:
		g.p("edition = \"2023\";\n")
	}
	if g.r.Chance(2, 3) {
		g.pkg = Pick(g.r, []string{"p", "p.q", "a.b.c"})
		g.p("package %s;\n", g.pkg)
	}
	if g.rich {
		g.p("import \"%s\";\n", b03OptsPath)
	}
	if g.r.Chance(1, 5) {
		g.p("import public \"google/protobuf/empty.proto\";\n")
	}
	if g.r.Chance(1, 8) && g.syn != 23 {
		g.p("import weak \"google/protobuf/timestamp.proto\";\n")
	}
	if g.r.Chance(1, 3) {
		g.optionStmts([]string{`java_package = "j"`, "deprecated = true", "cc_enable_arenas = true", "optimize_for = SPEED"}, "f")
	}
	k := 1 + g.r.Intn(4)
	for i := 0; i < k; i++ {
		switch g.r.Intn(8) {
		case 0, 1, 2, 3:
			g.msgs = append(g.msgs, g.message(0))
		case 4:
			g.enums = append(g.enums, g.enum())
		case 5:
			g.service()
		case 6:
			if g.proto2() {
				b := g.name("B")
				g.p("message %s { extensions 1 to max; }\n", b)
				g.msgs = append(g.msgs, b)
				g.p("extend %s {\n optional string %s = 1;\n", b, g.name("x"))
				if g.r.Chance(1, 2) {
					g.p("optional group %s = 2 { optional int32 %s = 1; }\n", g.name("G"), g.name("f"))
				}
				if g.r.Chance(1, 2) {
					g.p("repeated int64 %s = 3%s;\n", g.name("x"), g.compact([]string{"packed = true"}, "fd"))
				}
				g.p("}\n")
			}
		default:
			g.optionStmts([]string{`go_package = "g"`, "java_multiple_files = true"}, "f")
		}
	}
	return g.sb.String()
}

func b03RandomText(r *Rand) string {
	g := &b03TG{r: r, budget: 12 + r.Intn(20), maxDepth: 3}
	g.syn = Pick(r, []int{0, 2, 2, 2, 3, 3, 23})
	g.rich = r.Chance(1, 2)
	if r.Chance(1, 6) {
		g.maxDepth = 5 + r.Intn(8)
		g.budget += 12
	}
	return g.file()
}

// b03Templates: one small file per construct, so that every branch of the walk is exercised
// whatever the seed.
var b03Templates = []string{
	``,
	`syntax = "proto3";`,
	`edition = "2023"; package a.b;`,
	`package p; import "google/protobuf/empty.proto"; import public "google/protobuf/any.proto"; import weak "google/protobuf/timestamp.proto";`,
	`syntax = "proto2"; message M { optional int32 a = 1; required string b = 2; repeated M c = 3; }`,
	`syntax = "proto3"; message M { int32 a = 1; M.N b = 2; message N { } enum E { Z = 0; } E e = 3; .M m = 4; }`,
	`syntax = "proto2"; message M { optional int32 a = 1 [default = 5, json_name = "x", deprecated = true]; }`,
	`syntax = "proto2"; message M { optional group G = 1 { optional int32 a = 1; } repeated group H = 2 [deprecated = true] { } }`,
	`syntax = "proto2"; message M { oneof o { int32 a = 1; group G = 2 { optional int32 x = 1; } string s = 3; } }`,
	`syntax = "proto3"; message M { map<string, int32> m = 1; map<int32, M> n = 2 [deprecated = true]; M x = 3; message N {} }`,
	`syntax = "proto2"; message M { extensions 100; extensions 200 to 300, 400 to max; reserved 5; reserved 7 to 9, 11; reserved "a", 'b'; }`,
	`edition = "2023"; message M { reserved a, b; reserved 3 to 4; int32 x = 1; } enum E { reserved OLD; A = 0; reserved 5 to max; }`,
	`syntax = "proto2"; enum E { option allow_alias = true; A = 0; B = 0 [deprecated = true]; C = -1; reserved 10, 20 to 30; reserved "X"; }`,
	`syntax = "proto3"; message M {} service S { option deprecated = true; rpc A(M) returns (M); rpc B(stream M) returns (stream M) { option deprecated = true; option idempotency_level = IDEMPOTENT; } rpc C(M) returns (M) { } }`,
	`syntax = "proto2"; message B { extensions 1 to max; } extend B { optional int32 x = 1; optional group G = 2 { optional int32 y = 1; } repeated string z = 3; } message C { extend B { optional C c = 10; repeated group H = 11 { } } }`,
	`syntax = "proto2"; import "b03opts.proto"; option (b03.fo) = { a: 1 r: [1, 2] sub { a: 2 } subs: [{a: 1}, {a: 2}] s: "x" }; option (b03.fr) = 1; option (b03.fr) = 2; option (b03.fi) = 3; option java_package = "x";`,
	`syntax = "proto2"; import "b03opts.proto"; message M { option (b03.mo).a = 1; option (b03.mo).sub.s = "q"; option (b03.mo).subs = { a: 1 }; option (b03.mo).subs = { r: 2 r: 3 }; option (b03.mr) = 5; optional int32 f = 1 [(b03.fdo) = { any: { [type.googleapis.com/b03.Opt] { a: 1 } } }, (b03.fdr) = 1, (b03.fdr) = 2, default = 2]; }`,
	`syntax = "proto2"; import "b03opts.proto"; message M { extensions 100 to 200 [(b03.xi) = 1, (b03.xo) = { a: 1 }]; extensions 300, 400 to 500 [(b03.xo).s = "s"]; oneof o { option (b03.oo) = { k: K1 }; option (b03.oi) = 2; int32 a = 1; } }`,
	`syntax = "proto3"; import "b03opts.proto"; enum E { option (b03.eo) = { rs: ["a", "b"] }; option (b03.er) = 1; option (b03.er) = 2; A = 0 [(b03.evo) = { [b03.xa]: 5 [b03.xsub] { a: 1 } }, (b03.evi) = 1]; } message M {} service S { option (b03.so) = { sub < a: 1 > }; rpc R(M) returns (M) { option (b03.ro) = { subs: [] r: [] }; option (b03.rr) = 1; option (b03.ri) = 0; } }`,
	`syntax = "proto2"; import "b03opts.proto"; option (b03.frm) = { a: 1 }; option (b03.frm) = { subs { subs { subs { a: 1 } } } }; option (b03.fo) = { any { [type.googleapis.com/b03.Opt]: { any: { [type.googleapis.com/b03.Opt] { a: 1 } } } } };`,
	`syntax = "proto2"; message A { message B { message C { message D { message E { message F { message G { message H { message I { optional int32 deep = 1 [deprecated = true]; enum Z { Q = 0; } } } } } } } } } }`,
	`syntax = "proto2"; import "google/protobuf/descriptor.proto"; extend google.protobuf.FieldOptions { optional int32 my = 60000; repeated string mys = 60001; } message M { optional int32 a = 1 [(my) = 1, (mys) = "a", (mys) = "b"]; }`,
	`edition = "2023"; option features.field_presence = IMPLICIT; message M { int32 a = 1 [features.field_presence = EXPLICIT]; repeated int32 b = 2 [features.repeated_field_encoding = EXPANDED]; M c = 3 [features.message_encoding = DELIMITED]; }`,
	`syntax = "proto2"; message M { optional string s = 1 [default = "a" 'b' "c"]; optional double d = 2 [default = -inf]; optional float f = 3 [default = 1.5e3]; optional int64 i = 4 [default = -0x10]; optional bool b = 5 [default = false]; }`,
}

// b03Directed: raw sources (comments, odd whitespace and encodings included) for situations the
// random trivia reaches only rarely.
var b03Directed = []string{
	// a group without label (oneof) with a leading comment: first token shared by field type and message
	"syntax = \"proto2\";\nmessage M {\n  oneof o {\n    // lead for group\n    group G = 1 {\n      optional int32 x = 1;\n    } // trail\n    int32 y = 2;\n  }\n}\n",
	"message M{oneof o{\n//c\ngroup G=1{}}}",
	// byte order mark, CRLF line ends, tabs before tokens, comment at end of file without newline
	"\xef\xbb\xbfsyntax = \"proto3\";\r\n\r\n// lead\r\nmessage M {\r\n\tint32 a = 1; // trail\r\n}\r\n// eof",
	"syntax = \"proto3\";\n\tmessage\tM\t{\t\tint32\ta\t=\t1\t;\t}\t",
	// multi-byte characters before tokens on the same line (columns count characters)
	"syntax = \"proto3\"; /* é✓ */ message M { string s = 1 [json_name = \"日本\"]; /* 😀 */ int32 b = 2; }",
	"syntax = \"proto2\"; message M { optional string s = 1 [default = \"é\\t\\u00e9\"]; } // x",
	// comments in every position of a field and of an rpc
	"syntax = \"proto3\";\nmessage M {\n  /* a */ repeated /* b */ int32 /* c */ x /* d */ = /* e */ 1 /* f */ [ /* g */ deprecated /* h */ = /* i */ true /* j */ ] /* k */ ; /* l */\n}\nservice S { /* a */ rpc /* b */ R /* c */ ( /* d */ stream /* e */ M /* f */ ) /* g */ returns /* h */ ( /* i */ M /* j */ ) /* k */ ; /* l */ }",
	// trailing comments against closing braces and at the end of the file
	"syntax = \"proto3\";\nmessage M { int32 a = 1; /* amb */ }\nmessage N { int32 a = 1;\n  // t\n}\nmessage O { /* only */ }\nenum E { A = 0; // t\n  // u\n\n}\n// end\n\n// of file",
	// a multi-line block comment that starts on the line of the token before it and ends on the line of
	// the closing symbol after it, in every kind of body and after the last element of every kind
	"syntax = \"proto3\";\nmessage M { /* a\n   b */ }\nmessage F { int32 x = 1; /* a\n   b */ }\nenum E { A = 0; /* a\n   b */ }\nmessage O { oneof o { int32 x = 1; /* a\n   b */ } /* c\n   d */ }\nservice S { /* a\n   b */ }\nservice T { rpc R(M) returns (M) { /* a\n   b */ } rpc Q(M) returns (M) { option deprecated = true; /* a\n   b */ } rpc P(M) returns (M); /* a\n   b */ }\nmessage L { int32 y = 1 [deprecated = true /* a\n   b */ ]; map<string, /* a\n  b */ int32> m = 2; /* a\n   b */ }",
	"syntax = \"proto2\";\nmessage M { optional group G = 1 { /* a\n   b */ } extensions 100 to 200; /* a\n   b */ }\nextend M { /* a\n   b */ optional int32 e = 100; /* a\n   b */ }\nenum E { option allow_alias = false; /* a\n   b */ A = 0; } /* a\n   b */",
	// empty statements
	"syntax = \"proto3\";; message M { ; int32 a = 1;; } ; enum E { A = 0;; }",
	// only comments
	"// nothing here\n/* at all */",
	"\n\n\n",
	// option values of every literal kind and long names
	"syntax = \"proto2\"; import \"b03opts.proto\"; option (b03.fo) = { a: 1, s: 'x' \"y\" k: K1 r: [ 1 , 2 ] subs: [ { a : 1 } , { sub < a : 2 > } ] any { [ type.googleapis.com / b03.Opt ] { a : 1 } } [ b03.xa ] : 5 };\noption (b03.fi) = -5; option (b03.fo).sub.sub.a = 0x10; option java_package = \"a\" 'b';",
}

// b03DeepBody is one of every path-producing construct of a message body: a oneof with a group and an
// option after the group, a plain group, a map field, a nested enum, an extension range with options,
// reserved ranges and names, an extendable message and an extend block with a group, a nested message.
const b03DeepBody = `option deprecated = false;
oneof o { int32 a = 1; group G = 2 { optional int32 x = 1; optional group GG = 2 { } } option (b03.oi) = 1; string s = 3; group G2 = 7 { optional bool y = 1; } }
optional group H = 4 [deprecated = true] { optional int32 y = 1; }
map<string, int32> mp = 5;
enum E { Z = 0; O = 1 [deprecated = true]; }
extensions 100 to 199, 300 [(b03.xi) = 1, (b03.xo) = { a: 1 }];
reserved 50, 60 to 70; reserved "r1", "r2";
message B { extensions 1 to 10; }
extend B { optional int32 e = 1; optional group XG = 2 { optional int32 z = 1; } }
message N { optional int32 n = 1; }
optional N last = 6 [deprecated = true, (b03.fdi) = 2];
`

// b03DeepFile is a chain of depth nested messages; the body stands in the innermost one only, or in
// every message of the chain. Location paths in a message at depth d have 2d elements, so the family
// d = 1..12 crosses the initial capacity of the path slice (16) and every capacity class of
// slices.Clone — slice-aliasing defects of the walk show at particular path lengths only.
func b03DeepFile(depth int, everyLevel bool) string {
	var sb strings.Builder
	sb.WriteString("syntax = \"proto2\";\nimport \"b03opts.proto\";\n")
	for d := 1; d <= depth; d++ {
		fmt.Fprintf(&sb, "message D%d {\n", d)
		if everyLevel && d < depth {
			sb.WriteString(b03DeepBody)
		}
	}
	sb.WriteString(b03DeepBody)
	for d := 1; d <= depth; d++ {
		sb.WriteString("}\n")
	}
	return sb.String()
}

// b03Profiles: trivia profiles from none to dense.
func b03Profiles(r *Rand) []*b03Trivia {
	return []*b03Trivia{
		{r: r, pComment: 0, pNewline: 0},
		{r: r, pComment: 0, pNewline: 30},
		{r: r, pComment: 15, pNewline: 30},
		{r: r, pComment: 40, pNewline: 20, exotic: true},
		{r: r, pComment: 80, pNewline: 20},
		{r: r, pComment: 25, pNewline: 30, crlf: true, exotic: true},
	}
}

// b03RandomSource renders a random file; very large renderings (the Lean model works on lists and
// is quadratic in the file size) are re-rendered with sparse trivia.
func b03RandomSource(r *Rand, profs []*b03Trivia) []byte {
	toks := b03Tokenize(b03RandomText(r))
	src := b03Render(toks, Pick(r, profs))
	if len(src) > 8000 {
		src = b03Render(toks, &b03Trivia{r: r, pComment: 3, pNewline: 20})
	}
	return src
}

func b03SrcinfoCase(src []byte) []string {
	op := b03FileOp("file", b03Gen(src))
	if op == "" {
		return nil
	}
	return []string{op, "mode 1", "mode 2", "mode 4", "mode 6", "raw 1", "raw 2", "raw 4", "raw 6", "conc 4"}
}

func (e *srcinfoEngine) Gen(r *Rand, tier string) [][]string {
	// NewRand(seed+1) is NewRand(seed) advanced by one draw: re-seed from a mixed output so that
	// different seeds give unrelated streams
	r = NewRand(r.U64())
	cases := [][]string{{"tags"}, {"schema"}}
	add := func(src []byte) bool {
		c := b03SrcinfoCase(src)
		if c == nil {
			return false
		}
		cases = append(cases, c)
		return true
	}
	rejected := 0
	// exhaustive small domain: every template × a deterministic set of trivia profiles
	profs := b03Profiles(r)
	for _, tpl := range b03Templates {
		toks := b03Tokenize(tpl)
		if !add([]byte(tpl)) {
			rejected++
		}
		sel := profs[2:5]
		if tier == "thorough" {
			sel = profs
		}
		for _, p := range sel {
			if !add(b03Render(toks, p)) {
				rejected++
			}
		}
	}
	for _, d := range b03Directed {
		if !add([]byte(d)) {
			rejected++
		}
	}
	// every construct at every nesting depth 1..12 (path lengths 2..24), plain and with comments
	for depth := 1; depth <= 12; depth++ {
		txt := b03DeepFile(depth, false)
		if !add([]byte(txt)) {
			rejected++
		}
		if depth%3 == 1 || tier == "thorough" {
			if !add(b03Render(b03Tokenize(txt), profs[3])) {
				rejected++
			}
		}
	}
	// long lines, shared AST, many rounds
	for _, n := range []int{30, 70} {
		if c := b03SrcinfoCase([]byte(b03LongLines(n))); c != nil {
			cases = append(cases, []string{c[0], "mode 1", "mode 2", "mode 4", "mode 6", "conc 25"})
		} else {
			rejected++
		}
	}
	for _, depth := range []int{6, 11} {
		if !add([]byte(b03DeepFile(depth, true))) {
			rejected++
		}
	}
	n := 60
	if tier == "thorough" {
		n = 2500
	}
	for i := 0; i < n; i++ {
		if !add(b03RandomSource(r, profs)) {
			rejected++
		}
	}
	if os.Getenv("B03_DEBUG") != "" {
		fmt.Fprintf(os.Stderr, "srcinfo gen: %d cases, %d rejected\n", len(cases), rejected)
	}
	return cases
}

// b03CalibFiles are the files of internal/testdata/source_info.protoset (protoc's own output).
var b03CalibFiles = []string{"desc_test_options.proto", "desc_test_comments.proto", "desc_test_complex.proto"}

// b03GapShapes enumerates the text between two tokens: up to maxK comments, each a line comment,
// a one-line block comment or a two-line block comment, with every choice of "same line", "next
// line" and "blank line in between" before, between and after them.
func b03GapShapes(maxK int) []string {
	ws := []string{" ", "\n", "\n\n"}
	kinds := []string{"L", "B", "M"}
	var out []string
	var rec func(k int, prefix string, lastLine bool, n int)
	rec = func(k int, prefix string, lastLine bool, n int) {
		// close the gap: whitespace before the next token
		for wi, w := range ws {
			if lastLine && wi == 0 {
				continue // a line comment runs to the end of the line
			}
			g := prefix
			if lastLine {
				g += w[1:] // the line comment's own newline is written with the comment
			} else {
				g += w
			}
			out = append(out, g)
		}
		if k == 0 {
			return
		}
		for wi, w := range ws {
			if lastLine && wi == 0 {
				continue
			}
			sep := w
			if lastLine {
				sep = w[1:]
			}
			for _, kind := range kinds {
				id := strconv.Itoa(n)
				switch kind {
				case "L":
					rec(k-1, prefix+sep+"// c"+id+"\n", true, n+1)
				case "B":
					rec(k-1, prefix+sep+"/* c"+id+" */", false, n+1)
				default:
					rec(k-1, prefix+sep+"/* c"+id+"\n * more */", false, n+1)
				}
			}
		}
	}
	rec(maxK, "", false, 0)
	return out
}

// b03GapFiles packs gap shapes into small files for every pair of (declaration-ending token,
// next token) kinds.
func b03GapFiles(gaps []string) [][]byte {
	var files [][]byte
	const per = 24
	for lo := 0; lo < len(gaps); lo += per {
		hi := lo + per
		if hi > len(gaps) {
			hi = len(gaps)
		}
		chunk := gaps[lo:hi]
		var a, b, c, d, e, f strings.Builder
		a.WriteString("syntax = \"proto3\";\nmessage M { int32 f0 = 1;")
		b.WriteString("syntax = \"proto3\";\n")
		c.WriteString("syntax = \"proto3\";\nmessage N0 { }")
		d.WriteString("syntax = \"proto3\";\n")
		e.WriteString("syntax = \"proto3\";\n")
		f.WriteString("syntax = \"proto3\";\n")
		for i, g := range chunk {
			fmt.Fprintf(&a, "%sint32 f%d = %d;", g, i+1, i+2)                  // ;  → declaration
			fmt.Fprintf(&b, "message N%d {%sint32 a = 1; }\n", i, g)           // {  → declaration
			fmt.Fprintf(&c, "%smessage N%d { }", g, i+1)                        // }  → declaration
			fmt.Fprintf(&d, "message N%d { int32 a = 1;%s}\n", i, g)           // ;  → }
			fmt.Fprintf(&e, "message N%d {%s}\n", i, g)                        // {  → }
			fmt.Fprintf(&f, "message N%d { message X { }%s}\n", i, g)          // }  → }
		}
		a.WriteString(" }\n")
		c.WriteString("\n")
		for _, sb := range []*strings.Builder{&a, &b, &c, &d, &e, &f} {
			files = append(files, []byte(sb.String()))
		}
	}
	for _, g := range gaps {
		files = append(files,
			[]byte(strings.TrimPrefix(g, " ")+"syntax = \"proto3\";\n"), // start of file → declaration
			[]byte("syntax = \"proto3\";"+g),                             // ;  → end of file
			[]byte("message M { }"+g),                                     // }  → end of file
			[]byte(g),                                                     // start of file → end of file
		)
	}
	return files
}

func (e *commentsEngine) Gen(r *Rand, tier string) [][]string {
	r = NewRand(r.U64() ^ 0x5bd1e995)
	var cases [][]string
	// calibration against protoc's own output (one case: the oracle accumulates clause coverage)
	var calib []string
	for _, name := range b03CalibFiles {
		src, err := b03Testdata(name)
		if err != nil {
			calib = append(calib, "calib "+name+" - -")
			continue
		}
		env := b03CalibEnv(name, src)
		file, idx, err := b03Facts(env)
		if err != nil {
			calib = append(calib, "calib "+name+" "+Hex(src)+" -")
			continue
		}
		calib = append(calib, "calib "+name+" "+Hex(src)+" "+b03SerializeAST(file, idx))
	}
	calib = append(calib, "calib-summary")
	cases = append(cases, calib)
	// makeSpan: exhaustive small positions, then random ones
	var spans []string
	vals := []int{1, 2, 9}
	for _, l1 := range vals {
		for _, l2 := range vals {
			for _, c1 := range vals {
				for _, c2 := range vals {
					spans = append(spans, fmt.Sprintf("span %d %d %d %d", l1, c1, l2, c2))
				}
			}
		}
	}
	for i := 0; i < 40; i++ {
		l1 := 1 + r.Intn(1<<uint(r.Intn(31)))
		l2 := l1
		if r.Chance(1, 2) {
			l2 = l1 + r.Intn(1000)
		}
		spans = append(spans, fmt.Sprintf("span %d %d %d %d", l1, 1+r.Intn(500), l2, 1+r.Intn(500)))
	}
	cases = append(cases, spans)
	// exhaustive gap shapes
	maxK := 2
	if tier == "thorough" {
		maxK = 3
	}
	addPairs := func(f []byte) {
		op := b03FileOp("pairs 0", b03Gen(f))
		if op == "" {
			return
		}
		cases = append(cases, []string{op, "pairs 1" + strings.TrimPrefix(op, "pairs 0")})
	}
	for _, f := range b03GapFiles(b03GapShapes(maxK)) {
		addPairs(f)
	}
	for _, d := range b03Directed {
		addPairs([]byte(d))
	}
	// the srcinfo templates and random files with random trivia
	profs := b03Profiles(r)
	for _, tpl := range b03Templates {
		toks := b03Tokenize(tpl)
		for _, p := range profs[2:5] {
			addPairs(b03Render(toks, p))
		}
	}
	n := 80
	if tier == "thorough" {
		n = 3000
	}
	for i := 0; i < n; i++ {
		addPairs(b03RandomSource(r, profs[2:]))
	}
	return cases
}
