package engines

import (
	"fmt"
	"sort"
	"strconv"
	"strings"
	"time"
	"unicode/utf8"

	"github.com/bufbuild/protocompile/experimental/parser"
	"github.com/bufbuild/protocompile/experimental/report"
	"github.com/bufbuild/protocompile/experimental/source"
	"github.com/bufbuild/protocompile/experimental/token"
	"github.com/bufbuild/protocompile/experimental/token/keyword"
)

// xlex (C29): the experimental lexer's token stream (ends, kinds, keywords, fuse offsets), the
// bracket / unrecognized / unterminated / prelude / ICE diagnostics, and whether the token texts
// concatenate to the input.
//
// xparse (C28): experimental/parser.Parse — `ok` against the levels of the diagnostics it
// produced, lexer ICE, parser ICE, panics, diagnostic spans inside the file.
//
// Ops (one per case unless noted):
//   kwtable | ascii | flags                     configuration read from the Go code at run time
//   lex <hex> <cls>                             run the lexer only
//   parse <hex> <cls> <C> <levels> <badspans>   run Parse; <C>, <levels>, <badspans> were observed
//                                               by Gen on the same tree and are re-observed by Exec
// <cls> = "-" or "rune:mask,..." (classes of the non-ASCII runes of the input, from Go's tables).

const xlexPath = "x.proto"

type xlexEngine struct{}
type xparseEngine struct{}

func init() {
	Register("xlex", func() Engine { return xlexEngine{} })
	Register("xparse", func() Engine { return xparseEngine{} })
}

func (xlexEngine) Name() string   { return "xlex" }
func (xlexEngine) Reset()         {}
func (xparseEngine) Name() string { return "xparse" }
func (xparseEngine) Reset()       {}

// ---------------------------------------------------------------- shared observation code

// xlClasses renders the class masks of the distinct non-ASCII runes that decode validly.
func xlClasses(in []byte) string {
	seen := map[rune]bool{}
	var rs []int
	for i := 0; i < len(in); {
		r, n := utf8.DecodeRune(in[i:])
		if !(r == utf8.RuneError && n < 2) && r >= 0x80 && !seen[r] {
			seen[r] = true
			rs = append(rs, int(r))
		}
		i += n
	}
	if len(rs) == 0 {
		return "-"
	}
	sort.Ints(rs)
	parts := make([]string, len(rs))
	for i, r := range rs {
		parts[i] = fmt.Sprintf("%d:%d", r, parser.VerifRuneClass(rune(r)))
	}
	return strings.Join(parts, ",")
}

func xlDiagClass(d *report.Diagnostic) string {
	m := d.Message()
	switch {
	case d.Level() == report.ICE:
		return "ice"
	case strings.HasPrefix(m, "encountered unmatched"):
		return "unm"
	case m == "unrecognized token":
		return "unrec"
	case m == "unterminated string literal":
		return "unterm"
	case strings.HasPrefix(m, "input appears to be"), strings.HasPrefix(m, "files larger than"):
		return "prelude"
	}
	return ""
}

func xlSpan(sp source.Span) string {
	if sp.File == nil {
		return "n"
	}
	return strconv.Itoa(sp.Start) + "-" + strconv.Itoa(sp.End)
}

// xlDiags renders the tracked diagnostics: cls:level:span+span...
func xlDiags(ds []report.Diagnostic) string {
	var out []string
	for i := range ds {
		d := &ds[i]
		c := xlDiagClass(d)
		if c == "" {
			continue
		}
		var sp []string
		if c == "unm" {
			for _, s := range report.VerifViewDiagnostic(d).Snippets {
				sp = append(sp, xlSpan(source.Span{File: s.File, Start: s.Start, End: s.End}))
			}
		} else if p := d.Primary(); p.File != nil {
			sp = append(sp, xlSpan(p))
		}
		out = append(out, c+":"+strconv.Itoa(int(d.Level()))+":"+strings.Join(sp, "+"))
	}
	if len(out) == 0 {
		return "-"
	}
	return strings.Join(out, ",")
}

// xlTokens renders the natural tokens: end.kind.keyword.offset, and whether their texts
// concatenate to the input.
func xlTokens(s *token.Stream, in string) (string, bool) {
	var out []string
	var cat strings.Builder
	for t := range s.All() {
		if t.IsSynthetic() {
			continue
		}
		off := 0
		if !t.IsLeaf() {
			a, b := t.StartEnd()
			if a.ID() == t.ID() {
				off = int(b.ID()) - int(t.ID())
			} else {
				off = int(a.ID()) - int(t.ID())
			}
		}
		out = append(out, fmt.Sprintf("%d.%d.%d.%d", t.LeafSpan().End, int(t.Kind()), int(t.Keyword()), off))
		cat.WriteString(t.Text())
	}
	if len(out) == 0 {
		return "-", cat.String() == in
	}
	return strings.Join(out, ","), cat.String() == in
}

// ---------------------------------------------------------------- xlex

func (xlexEngine) Exec(op string) string {
	w := strings.Fields(op)
	switch {
	case len(w) == 1 && w[0] == "kwtable":
		var out []string
		for k := range keyword.All() {
			l, r, j := k.Brackets()
			if k.IsBrackets() {
				out = append(out, fmt.Sprintf("%d:fused:%d.%d.%d", int(k), int(l), int(r), int(j)))
				continue
			}
			word := 0
			if k.IsReservedWord() {
				word = 1
			}
			out = append(out, fmt.Sprintf("%d:%s:%d:%d:%d.%d.%d", int(k), Hex([]byte(k.String())),
				parser.VerifOnKeyword(k), word, int(l), int(r), int(j)))
		}
		return strings.Join(out, ",")
	case len(w) == 1 && w[0] == "ascii":
		out := make([]string, 128)
		for r := 0; r < 128; r++ {
			out[r] = strconv.Itoa(parser.VerifRuneClass(rune(r)))
		}
		return strings.Join(out, ",")
	case len(w) == 1 && w[0] == "flags":
		var b strings.Builder
		for _, f := range parser.VerifLexFlags() {
			if f {
				b.WriteByte('1')
			} else {
				b.WriteByte('0')
			}
		}
		for _, a := range []string{"r", "b", "rb", "R", "br", "u", "x", ""} {
			if parser.VerifIsAffix(a, token.String, false) {
				b.WriteString(" +" + a)
			}
		}
		return b.String()
	case len(w) == 3 && w[0] == "lex":
		in := UnHex(w[1])
		if xlClasses(in) != w[2] {
			return "bad-op"
		}
		r := &report.Report{}
		f := source.NewFile(xlexPath, string(in))
		s := parser.VerifLex(f, r)
		toks, cat := xlTokens(s, string(in))
		c := "ne"
		if cat {
			c = "eq"
		}
		return "T=" + toks + " D=" + xlDiags(r.Diagnostics) + " cat=" + c
	}
	return "bad-op"
}

func (xlexEngine) Trivial(op, ans string) bool {
	return strings.HasPrefix(op, "lex - ")
}

func (xlexEngine) Class(op, ans string) string {
	if !strings.HasPrefix(op, "lex ") {
		return "config"
	}
	switch {
	case strings.Contains(ans, "ice:"):
		return "lex-ice"
	case strings.Contains(ans, "prelude:"):
		return "lex-prelude-abort"
	case strings.HasSuffix(ans, "cat=ne"):
		return "lex-untiled"
	case strings.Contains(ans, "unm:"):
		return "lex-unmatched"
	}
	return "lex-plain"
}

// ---------------------------------------------------------------- xparse

type xpObs struct {
	// shared: what differs when the same input is parsed into a report that already holds the
	// diagnostics of another (broken) file; "" when nothing does
	shared   string
	ok       bool
	levels   string
	badSpans int
	lexICE   int
	panicked string
}

// xpObserve runs the real lexer+parser under a watchdog: an input on which they do not finish
// (C28: "finish") is observed as levels="hang" instead of blocking the whole harness.
func xpObserve(in []byte) xpObs {
	done := make(chan xpObs, 1)
	go func() { done <- xpObserve1(in) }()
	select {
	case o := <-done:
		return o
	case <-time.After(20 * time.Second):
		return xpObs{levels: "hang"}
	}
}

func xpObserve1(in []byte) (o xpObs) {
	defer func() {
		if p := recover(); p != nil {
			o.panicked = Canon(fmt.Sprint(p))
			o.levels = "panic"
		}
	}()
	r := &report.Report{}
	f := source.NewFile(xlexPath, string(in))
	_, ok := parser.Parse(xlexPath, f, r)
	o.ok = ok
	var lv []string
	for i := range r.Diagnostics {
		d := &r.Diagnostics[i]
		lv = append(lv, strconv.Itoa(int(d.Level())))
		if d.Level() == report.ICE {
			for _, n := range d.Notes() {
				if strings.HasPrefix(n, "cursor: ") {
					o.lexICE++
				}
			}
		}
		for _, sn := range report.VerifViewDiagnostic(d).Snippets {
			sp := source.Span{File: sn.File, Start: sn.Start, End: sn.End}
			if sp.File == nil {
				continue
			}
			if sp.File != f || sp.Start < 0 || sp.End < sp.Start || sp.End > len(in) {
				o.badSpans++
			}
		}
	}
	o.levels = "-"
	if len(lv) > 0 {
		o.levels = strings.Join(lv, ",")
	}
	// Parse appends to the caller's report; a report may be shared by several Parse calls. What
	// this call reports (ok, and the diagnostics it appends) must not depend on what the report
	// held before.
	r2 := &report.Report{}
	parser.Parse("prior.proto", source.NewFile("prior.proto", "message {\n"), r2)
	n0 := len(r2.Diagnostics)
	priorErr := false
	for i := range r2.Diagnostics {
		if r2.Diagnostics[i].Level() <= report.Error {
			priorErr = true
		}
	}
	if priorErr {
		_, ok2 := parser.Parse(xlexPath, source.NewFile(xlexPath, string(in)), r2)
		var lv2 []string
		if len(r2.Diagnostics) >= n0 {
			for i := n0; i < len(r2.Diagnostics); i++ {
				lv2 = append(lv2, strconv.Itoa(int(r2.Diagnostics[i].Level())))
			}
		}
		l2 := "-"
		if len(lv2) > 0 {
			l2 = strings.Join(lv2, ",")
		}
		if ok2 != ok || l2 != o.levels {
			o.shared = fmt.Sprintf("ok=%v:levels=%s", ok2, l2)
		}
	}
	return o
}

func xpConsts() string {
	return fmt.Sprintf("%d,%d,%d,%d", int(report.ICE), int(report.Error), int(report.Warning), int(report.Remark))
}

func xpOp(in []byte) string {
	o := xpObserve(in)
	return fmt.Sprintf("parse %s %s %s %s %d", Hex(in), xlClasses(in), xpConsts(), o.levels, o.badSpans)
}

func (xparseEngine) Exec(op string) string {
	w := strings.Fields(op)
	if len(w) != 6 || w[0] != "parse" {
		return "bad-op"
	}
	in := UnHex(w[1])
	if xlClasses(in) != w[2] {
		return "bad-op"
	}
	o := xpObserve(in)
	if o.panicked != "" {
		panic(o.panicked)
	}
	obs := "same"
	if w[3] != xpConsts() || w[4] != o.levels || w[5] != strconv.Itoa(o.badSpans) {
		obs = "differ:" + xpConsts() + ":" + o.levels + ":" + strconv.Itoa(o.badSpans)
	}
	if obs == "same" && o.shared != "" {
		obs = "shared-report:" + o.shared
	}
	return fmt.Sprintf("ok=%v lexice=%d obs=%s", o.ok, o.lexICE, obs)
}

func (xparseEngine) Trivial(op, ans string) bool { return strings.HasPrefix(op, "parse - ") }

func (xparseEngine) Class(op, ans string) string {
	w := strings.Fields(op)
	if len(w) != 6 {
		return "other"
	}
	lv := "," + w[4] + ","
	ice, errL, warn := strconv.Itoa(int(report.ICE)), strconv.Itoa(int(report.Error)), strconv.Itoa(int(report.Warning))
	switch {
	case w[4] == "-":
		return "no-diagnostics"
	case strings.Contains(lv, ","+ice+","):
		return "ice"
	case strings.Contains(lv, ","+errL+","):
		return "errors"
	case strings.Contains(lv, ","+warn+","):
		return "warnings-only"
	}
	return "remarks-only"
}

// ---------------------------------------------------------------- generators

// xlAlphabet: symbols that steer the lexer into every branch (some are multi-byte).
var xlAlphabet = []string{
	"\"", "'", "\\", "/", "*", "\n", " ", "(", ")", "[", "]", "{", "}",
	"a", "r", "1", ".", "e", "+", "_", "`", "\x00", "\x80",
	"\u00e9", "\u0300", "\u00ad", "\ufeff", "\u2028", "0", "x", "n", "=", ";", "<", ">", "b", "#", "\t",
}

var xlVocab = []string{
	"syntax", "=", "\"proto3\"", ";", "package", "message", "enum", "int32", "string", "repeated", "required",
	"optional", "map", "<", ">", ",", "{", "}", "(", ")", "[", "]", "option", "import", "public", "returns", "rpc",
	"service", "stream", "extend", "extensions", "reserved", "to", "max", "oneof", "group", "true", "false", "inf",
	"nan", "default", "json_name", "foo", "Bar", "_x1", "a.b.C", ".", "..", "1", "0x1F", "1.5e+3", ".5", "1e", "08",
	"0b12", "1_000", "1u", "-", "+", "'a'", "\"a\\\"b\"", "'\\x41\\101\\u00e9'", "\"\"\"x\"y\"\"\"", "'''", "r'x'",
	"b\"y\"", "rb'z'", "q\"w\"", "\"unterminated", "'\\", "// line\n", "// eof", "/* block */", "/* open", "*/", "/*/",
	"\n", " ", "\t", "\r\n", "  \n\n ", "`", "\\", "$", "@", "#", "~", "!", "?", "&&", "||", "&", "|", "^", ":", ":=",
	"==", "!=", "<=", ">=", "<<", "*", "/", "%", "\u00e9", "\u00e9t\u00e9", "\u0300", "x\u0300", "x\u00ad", "\u00ad",
	"\u2028", "\u0085", "\u00a0", "\U0001F600", "\u4e2d\u6587", "\x00", "\x01", "\x7f", "has(x.y)", "size(a) > 0 ? b : c",
	"a in [1, 2]", "x.map(e, e * 2)",
}

var xlSeeds = []string{
	"syntax = \"proto3\";\npackage p;\n",
	"syntax = \"proto3\";\npackage p;\nmessage M { int32 x = 1; }\n",
	"syntax = \"proto2\";\npackage p;\nmessage M { required int32 x = 1; optional string s = 2 [default = \"a\\n\"]; }\n",
	"edition = \"2023\";\npackage a.b;\nimport \"x.proto\";\nenum E { E_ZERO = 0; E_ONE = 1; }\n",
	"syntax = \"proto3\";\npackage p;\nservice S { rpc F(stream M) returns (N) { option deprecated = true; } }\n",
	"syntax = \"proto3\";\npackage p;\nmessage M { map<string, int64> m = 1; oneof o { int32 a = 2; } reserved 5 to max; }\n",
	"syntax = \"proto3\";\npackage p;\n// comment\n/* block\n comment */ message M { repeated .p.M ms = 1 [json_name = \"x\"]; }\n",
	"syntax = \"proto2\";\npackage p;\nmessage M { extensions 100 to 199; optional group G = 1 { optional float f = 2 [default = -1.5e3]; } }\nextend M { optional int32 e = 100; }\n",
	"syntax = \"proto3\";\npackage p;\noption (x.y) = { a: 1 b: \"s\" c: [1, 2] d { e: true } };\n",
	"syntax = \"proto3\";\npackage p;\nmessage M { string s = 1 [(v).cel = { expression: \"this.size() > 0 && has(this.x) ? true : false\" }]; }\n",
	"syntax = \"proto3\";",
	"package p;",
	"message M {}",
	"",
}

func xlExhaustive(alpha []string, n int, emit func([]byte)) {
	var rec func(prefix []byte, d int)
	rec = func(prefix []byte, d int) {
		emit(prefix)
		if d == 0 {
			return
		}
		for _, c := range alpha {
			rec(append(append([]byte{}, prefix...), c...), d-1)
		}
	}
	rec(nil, n)
}

func xlMutate(r *Rand, s []byte) []byte {
	b := append([]byte{}, s...)
	k := 1 + r.Intn(3)
	for i := 0; i < k; i++ {
		switch r.Intn(6) {
		case 0: // truncate
			if len(b) > 0 {
				b = b[:r.Intn(len(b)+1)]
			}
		case 1: // delete a byte
			if len(b) > 0 {
				p := r.Intn(len(b))
				b = append(b[:p], b[p+1:]...)
			}
		case 2: // flip to a random byte
			if len(b) > 0 {
				b[r.Intn(len(b))] = byte(r.U64())
			}
		case 3: // insert an alphabet symbol
			p := r.Intn(len(b) + 1)
			sym := Pick(r, xlAlphabet)
			b = append(b[:p], append([]byte(sym), b[p:]...)...)
		case 4: // append an alphabet symbol
			b = append(b, Pick(r, xlAlphabet)...)
		case 5: // duplicate a slice
			if len(b) > 1 {
				p := r.Intn(len(b))
				q := p + r.Intn(len(b)-p)
				b = append(b[:q], append(append([]byte{}, b[p:q]...), b[q:]...)...)
			}
		}
	}
	return b
}

func xlRandomInput(r *Rand) []byte {
	switch r.Intn(10) {
	case 0: // raw random bytes (mostly rejected by the prelude)
		return r.Bytes(1 + r.Intn(12))
	case 1: // random printable ASCII
		n := 1 + r.Intn(30)
		b := make([]byte, n)
		for i := range b {
			b[i] = byte(0x20 + r.Intn(0x5f))
		}
		return b
	case 2, 3: // alphabet soup
		n := 1 + r.Intn(14)
		var b []byte
		for i := 0; i < n; i++ {
			b = append(b, Pick(r, xlAlphabet)...)
		}
		return b
	case 4, 5, 6: // vocabulary soup
		n := 1 + r.Intn(16)
		var b []byte
		for i := 0; i < n; i++ {
			b = append(b, Pick(r, xlVocab)...)
			if r.Chance(1, 2) {
				b = append(b, ' ')
			}
		}
		return b
	case 7: // deep nesting with a defect
		open := []string{"(", "[", "{"}
		cl := map[string]string{"(": ")", "[": "]", "{": "}"}
		var st []string
		var b []byte
		n := 1 + r.Intn(24)
		for i := 0; i < n; i++ {
			if len(st) == 0 || r.Chance(3, 5) {
				o := Pick(r, open)
				st = append(st, o)
				b = append(b, o...)
			} else if r.Chance(1, 8) {
				b = append(b, cl[Pick(r, open)]...)
			} else {
				b = append(b, cl[st[len(st)-1]]...)
				st = st[:len(st)-1]
			}
			if r.Chance(1, 6) {
				b = append(b, Pick(r, xlVocab)...)
			}
		}
		for len(st) > 0 && r.Chance(4, 5) {
			b = append(b, cl[st[len(st)-1]]...)
			st = st[:len(st)-1]
		}
		return b
	default: // mutants of valid files
		return xlMutate(r, []byte(Pick(r, xlSeeds)))
	}
}

func xlInputs(r *Rand, tier string, quickRandom, thoroughRandom int) [][]byte {
	var ins [][]byte
	seen := map[string]bool{}
	add := func(b []byte) {
		if len(b) > 600 || seen[string(b)] {
			return
		}
		seen[string(b)] = true
		ins = append(ins, append([]byte{}, b...))
	}
	for _, s := range xlSeeds {
		add([]byte(s))
	}
	for _, s := range xlVocab {
		add([]byte(s))
	}
	// every single byte, and every byte after a quote / before EOF in a string
	for a := 0; a < 256; a++ {
		add([]byte{byte(a)})
		add([]byte{'"', byte(a)})
		add([]byte{'a', byte(a)})
		add([]byte{'\'', '\\', byte(a)})
		add([]byte{'1', byte(a)})
	}
	if tier == "thorough" {
		xlExhaustive(xlAlphabet, 3, add)
		xlExhaustive(xlAlphabet[:24], 4, add)
		xlExhaustive(xlAlphabet[:13], 5, add)
	} else {
		xlExhaustive(xlAlphabet, 2, add)
		xlExhaustive(xlAlphabet[:13], 3, add)
	}
	// all 2- and 3-bracket sequences up to length 6 over ( ) [ ] (bracket machine, exhaustively)
	bl := 6
	if tier == "thorough" {
		bl = 8
	}
	xlExhaustive([]string{"(", ")", "[", "]"}, bl, add)
	// truncations of the seed files
	for _, s := range xlSeeds {
		step := 1
		if tier != "thorough" {
			step = 3
		}
		for i := 0; i < len(s); i += step {
			add([]byte(s[:i]))
		}
	}
	n := quickRandom
	if tier == "thorough" {
		n = thoroughRandom
	}
	for i := 0; i < n; i++ {
		add(xlRandomInput(r))
	}
	return ins
}

func (xlexEngine) Gen(r *Rand, tier string) [][]string {
	cases := [][]string{{"kwtable"}, {"ascii"}, {"flags"}}
	for _, in := range xlInputs(r, tier, 3000, 500000) {
		cases = append(cases, []string{"lex " + Hex(in) + " " + xlClasses(in)})
	}
	return cases
}

// xpDecls: one declaration of every kind the parser and legalizer distinguish.
var xpDecls = []string{
	"syntax = \"proto3\";", "syntax = \"proto2\";", "edition = \"2023\";", "package p;", "package a.b;",
	"import \"a.proto\";", "import public \"a.proto\";", "import weak \"a.proto\";",
	"option java_package = \"x\";", "option (a.b) = { c: 1 };",
	"message N { int32 y = 1; }", "message N {}", "enum F { F_ZERO = 0; }", "enum F {}",
	"int32 f = 1;", "repeated string g = 2 [deprecated = true];", "optional N n = 3;", "map<string, int32> m = 4;",
	"service T { rpc G(N) returns (N); }", "service T {}", "rpc G(N) returns (stream N);",
	"rpc G(N) returns (N) { option deprecated = true; }",
	"extend N { int32 e = 100; }", "reserved 1 to 5;", "reserved \"a\", \"b\";", "reserved a;",
	"extensions 100 to 199;", "extensions 100 to max [verification = UNVERIFIED];",
	"oneof o { int32 a = 5; }", "group G = 6 { int32 h = 7; }", "optional group G = 6 {}", "F_ONE = 1;", ";", "",
}

// xpContexts: bodies a declaration can (wrongly) end up in; %s is the declaration.
var xpContexts = []string{
	"%s", "{ %s }", "{ { %s } }", "{ %s", "%s }", "{ %s } %s", "{ } %s", "( %s )", "[ %s ]",
	"message M { %s }", "message M { { %s } }", "message M { message I { %s } }", "message M { oneof o { %s } }",
	"message M { extend X { %s } }", "message M { optional group G = 1 { %s } }",
	"enum E { %s }", "enum E { { %s } }", "service S { %s }", "service S { { %s } }",
	"service S { rpc F(M) returns (M) { %s } }", "extend M { %s }", "extend M { { %s } }",
}

var xpHeaders = []string{"", "syntax = \"proto3\";\npackage p;\n", "edition = \"2023\";\n", "package p;\n"}

// xpDirected: every declaration kind in every body kind (incl. bare `{...}` bodies at file scope and
// inside messages/enums/services, nested bodies, unbalanced bodies), and one-bracket mutants of
// valid files: each bracket inserted at every declaration boundary, each bracket removed.
func xpDirected(add func([]byte)) {
	// `reserved` lists mixing tags and names with a missing / misplaced terminator: the diagnostic's
	// suggested edits must stay inside the declaration
	for _, body := range []string{`reserved 1, "foo"`, `reserved "foo", 1`, `reserved 1 "foo"`, `reserved 1, "foo" ,`,
		`reserved 1, 2, "a", "b"`, `reserved "a", 1 to 3`, `reserved 1 to max, "a"`} {
		for _, tail := range []string{" }", "}", "", ";}", " ; }", "\n}", " // c\n}"} {
			add([]byte("message M { " + body + tail))
			add([]byte("syntax = \"proto3\";\nenum E { E0 = 0; " + body + tail))
			add([]byte("edition = \"2023\";\nmessage M { " + strings.ReplaceAll(body, `"`, "") + tail))
		}
	}
	// numerals whose integer / power-of-five form cannot be materialized (the parser must finish)
	for _, n := range []string{"1e999999999", "1e2000000000", "1e-2000000000", "5E+2147483647", "123456789e-2147483640",
		"0x1p999999999", "0x1p-999999999", ".1e1000000000", "1e19", "1e20", "18446744073709551616e0"} {
		add([]byte("syntax = \"proto3\";\nmessage M { int32 x = " + n + "; }\n"))
		add([]byte("option x = " + n + ";"))
		add([]byte("message M { optional double d = 1 [default = " + n + "]; }"))
		add([]byte("message M { optional double d = 1 [default = -" + n + "]; }"))
	}
	for _, h := range xpHeaders {
		for _, c := range xpContexts {
			for _, d := range xpDecls {
				add([]byte(h + strings.ReplaceAll(c, "%s", d)))
			}
		}
	}
	brackets := []byte("{}()[]")
	for _, s := range xlSeeds {
		// boundaries: start, end, and after every `;`, `{`, `}` and newline
		bounds := []int{0}
		for i := 0; i < len(s); i++ {
			switch s[i] {
			case ';', '{', '}', '\n':
				bounds = append(bounds, i+1)
			}
		}
		for _, b := range bounds {
			for _, br := range brackets {
				m := make([]byte, 0, len(s)+1)
				m = append(m, s[:b]...)
				m = append(m, br)
				m = append(m, s[b:]...)
				add(m)
			}
		}
		for i := 0; i < len(s); i++ {
			if strings.IndexByte("{}()[]", s[i]) >= 0 {
				add([]byte(s[:i] + s[i+1:]))
			}
		}
	}
}

func (xparseEngine) Gen(r *Rand, tier string) [][]string {
	var cases [][]string
	// files that parse cleanly or with warnings only, with small decorations
	clean := []string{
		"syntax = \"proto3\";\npackage p;\n",
		"syntax = \"proto3\";\npackage p;\nmessage M { int32 x = 1; }\n",
		"syntax = \"proto2\";\npackage p;\nmessage M { required int32 x = 1; }\n",
		"syntax = \"proto2\";\npackage p;\nmessage M { optional int32 x = 1; }\n",
		"syntax = \"proto3\";\nmessage M { int32 x = 1; }\n",
		"package p;\nmessage M { optional int32 x = 1; }\n",
		"edition = \"2023\";\npackage p;\nenum E { E_ZERO = 0; }\n",
	}
	tails := []string{"", " ", "\n", "// c", "/* c */", "`", "\\", "\x01", "\u00ad", "\"\\", ";", "}", "message N {}"}
	seen := map[string]bool{}
	add := func(in []byte) {
		if seen[string(in)] {
			return
		}
		seen[string(in)] = true
		cases = append(cases, []string{xpOp(in)})
	}
	for _, c := range clean {
		for _, t := range tails {
			add([]byte(c + t))
		}
	}
	xpDirected(add)
	// the inputs of the lexer engine, thinned
	ins := xlInputs(r, tier, 2500, 200000)
	keep := 3
	if tier == "thorough" {
		keep = 2
	}
	for i, in := range ins {
		if len(in) > 4 || i%keep == 0 {
			add(in)
		}
	}
	return cases
}
