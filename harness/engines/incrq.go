package engines

import (
	"context"
	"fmt"
	"go/ast"
	"go/parser"
	"go/token"
	"io/fs"
	"os"
	"path/filepath"
	"regexp"
	"sort"
	"strconv"
	"strings"
	"sync"
	"time"

	"google.golang.org/protobuf/proto"

	"github.com/bufbuild/protocompile/experimental/fdp"
	"github.com/bufbuild/protocompile/experimental/incremental"
	"github.com/bufbuild/protocompile/experimental/incremental/queries"
	"github.com/bufbuild/protocompile/experimental/ir"
	"github.com/bufbuild/protocompile/experimental/report"
	"github.com/bufbuild/protocompile/experimental/source"
)

// incr_queries (C35): the real compiler queries (queries.File/AST/IR/Link/FDS) on a long-lived
// executor under edit histories, compared after every recompilation with a brand-new executor
// on the same files.
//
// Ops:
//   new <p>                          fresh long-lived executor (parallelism p) and session
//   put <i> <imports|-> <variant>    write file f<i>.proto: imports f<j>.proto.., body chosen by variant
//   del <i>                          delete f<i>.proto
//   evict <i>...                     Evict(queries.File{Opener, "f<i>.proto"}) for each i
//   link <i,j,..>                    compile the workspace on the long-lived executor and on a new one; compare
//   dump                             task table of the long-lived executor (abstract keys, deps/callers)
//   putx <i> <imports|-> <errs|->    write an INVALID file f<i>.proto (error tokens: see incrqErrText)
//   diag <i,j,..> <reps>             (engine incr_diag, C36) reps compilations on the long-lived executor + fresh
//                                    executors at parallelism 1,2,4,8: all reports must be the same ordered lists
//   putd <i> <imports|-> <pkg> <decls> write a proto2 file f<i>.proto in package <pkg> built from declarations (see
//                                    incrqDeclText): used for cross-file duplicate symbols and extension numbers
//   shape                            inspect queries/*.go: who opens files, which queries each Execute resolves
//
// diag additionally FORCES lowering orders: on a fresh executor and a fresh ir.Session (parallelism 1)
// queries.IR is run for the workspace files and their transitive imports one by one in a given
// permutation (identity, reverse, rotation, seeded shuffle; every permutation of up to 3 files) before
// the Link/FDS queries; the reports are compared with run 0 like those of the parallelism runs. The
// session-wide intern table hands out IDs first come first served, so the lowering order is what a
// scheduler decides under parallelism > 1.
//
// File text (all in package p):
//   message <M|N><i> { int32 x = 1; <variant part> }
//   variant v: name M if v even else N;  (v/2)%6:
//     0 plain   1 a field of type M<j> for every import j   2 also `message Shared<v%4> {}`
//     3 syntax error in the body   4 field of unknown type Zed
//     5 `enum <M|N><i> { Z<i> = 0; }` instead of the message

const incrqDescriptor = "google/protobuf/descriptor.proto"

type incrqOpener struct {
	mu    sync.Mutex
	files map[string]string
}

func (m *incrqOpener) Open(path string) (*source.File, error) {
	m.mu.Lock()
	defer m.mu.Unlock()
	t, ok := m.files[path]
	if !ok {
		return nil, fs.ErrNotExist
	}
	return source.NewFile(path, t), nil
}

type incrqEngine struct {
	name string
	p    int
	mem  *incrqOpener
	op   source.Opener
	ex   *incremental.Executor
	sess *ir.Session
	ws   map[string]source.Workspace
	// FDP keys are keyed by IR file identity: label = path + ordinal of that IR object among the
	// IR objects of the path that ever got an FDP task in this executor
	fdpLabel map[*ir.File]string
	fdpCount map[string]int
}

func init() {
	Register("incr_queries", func() Engine { return &incrqEngine{name: "incr_queries"} })
	// incr_diag (C36, executor clause): same files and executor, op family `diag`
	Register("incr_diag", func() Engine { return &incrqEngine{name: "incr_diag"} })
}

func (e *incrqEngine) Name() string { return e.name }

func (e *incrqEngine) Reset() {
	e.mem = &incrqOpener{files: map[string]string{}}
	e.op = &source.Openers{e.mem, source.WKTs()}
	e.fresh(1)
}

func (e *incrqEngine) fresh(p int) {
	e.p = p
	e.ex = incremental.New(incremental.WithParallelism(int64(p)))
	e.sess = new(ir.Session)
	e.ws = map[string]source.Workspace{}
	e.fdpLabel = map[*ir.File]string{}
	e.fdpCount = map[string]int{}
}

func incrqPath(i int) string { return fmt.Sprintf("f%d.proto", i) }

func incrqText(i int, imports []int, v int) string {
	var b strings.Builder
	b.WriteString("syntax = \"proto3\";\npackage p;\n")
	for _, j := range imports {
		fmt.Fprintf(&b, "import %q;\n", incrqPath(j))
	}
	name := "M"
	if v%2 == 1 {
		name = "N"
	}
	if (v/2)%6 == 5 {
		// the type is an ENUM of the same name: importers that use it stay valid but their field
		// descriptors change (TYPE_MESSAGE <-> TYPE_ENUM)
		fmt.Fprintf(&b, "enum %s%d {\n  Z%d = 0;\n}\n", name, i, i)
		return b.String()
	}
	fmt.Fprintf(&b, "message %s%d {\n  int32 x = 1;\n", name, i)
	switch (v / 2) % 6 {
	case 1:
		for n, j := range imports {
			fmt.Fprintf(&b, "  M%d r%d = %d;\n", j, n, n+2)
		}
	case 3:
		b.WriteString("  int32 = 5\n")
	case 4:
		b.WriteString("  Zed z = 9;\n")
	}
	b.WriteString("}\n")
	if (v/2)%6 == 2 {
		fmt.Fprintf(&b, "message Shared%d {}\n", v%4)
	}
	return b.String()
}

type incrqOutcome struct {
	// ordered diagnostics of the Link run and of the FDS run
	linkDiags, fdsDiags []incrqDiag
	fatal               string
	nfiles              int
	diags               string
	nerr                int
	fds                 string
	err                 string
}

func (o incrqOutcome) diff(p incrqOutcome) string {
	switch {
	case o.err != p.err:
		return "run-error"
	case o.fatal != p.fatal:
		return "link-fatal"
	case o.nfiles != p.nfiles:
		return "file-count"
	case o.diags != p.diags:
		return "diagnostics"
	case !incrqKeySorted(o.linkDiags) || !incrqKeySorted(p.linkDiags):
		// order-sensitive up to ties: both lists must be sorted by Canonicalize's key, so with
		// equal multisets they can differ only in the order of key-tied diagnostics (C36)
		return "diagnostics-not-in-canonical-order"
	case o.fds != p.fds:
		return "descriptors"
	}
	return ""
}

// incrqDiag is one reported diagnostic: key = the fields Report.Canonicalize sorts by,
// full = (level, tag, message, file, primary span, notes, help).
type incrqDiag struct {
	key, full string
	// for classifying differences: level, message and the paths of all snippets
	level int
	msg   string
	files []string
}

func incrqDiagList(rep *report.Report) []incrqDiag {
	if rep == nil {
		return nil
	}
	out := make([]incrqDiag, 0, len(rep.Diagnostics))
	for i := range rep.Diagnostics {
		d := &rep.Diagnostics[i]
		v := report.VerifViewDiagnostic(d)
		pr := d.Primary()
		key := fmt.Sprintf("%s|%d|%d|%d|%s|%s", pr.Path(), v.SortOrder, pr.Start, pr.End, v.Tag, v.Message)
		full := fmt.Sprintf("L%d|%s|%s|in=%s|%s:%d-%d|notes=%q|help=%q", int(v.Level), v.Tag, v.Message, d.File(), pr.Path(), pr.Start, pr.End, v.Notes, v.Help)
		// the other snippets (e.g. the "previously used here" side of a duplicate) in their order
		var files []string
		for _, sn := range v.Snippets {
			path := ""
			if sn.File != nil {
				path = sn.File.Path()
			}
			files = append(files, path)
			if !sn.Primary {
				full += fmt.Sprintf("|also=%s:%d-%d:%q", path, sn.Start, sn.End, sn.Message)
			}
		}
		out = append(out, incrqDiag{key: Canon(key), full: Canon(full), level: int(v.Level), msg: v.Message, files: files})
	}
	return out
}

// incrqKeySorted reports whether the list is sorted by Canonicalize's key.
func incrqKeySorted(l []incrqDiag) bool {
	return sort.SliceIsSorted(l, func(i, j int) bool { return incrqKeyLess(l[i].key, l[j].key) })
}

// incrqKeyLess compares two keys field by field like the cmpx.Join in Report.Canonicalize
// (path, order, start, end, tag, message).
func incrqKeyLess(a, b string) bool {
	x, y := strings.SplitN(a, "|", 6), strings.SplitN(b, "|", 6)
	if len(x) != 6 || len(y) != 6 {
		return a < b
	}
	for i := 0; i < 6; i++ {
		if x[i] == y[i] {
			continue
		}
		if i >= 1 && i <= 3 {
			m, _ := strconv.Atoi(x[i])
			n, _ := strconv.Atoi(y[i])
			return m < n
		}
		return x[i] < y[i]
	}
	return false
}

// incrqDiagDiff compares two ordered diagnostic lists. "" = identical; "tieorder ..." = the same
// multiset, differing only in the order of diagnostics that tie on Canonicalize's key;
// otherwise a description of the first difference.
func incrqDiagDiff(a, b []incrqDiag) string {
	same := len(a) == len(b)
	if same {
		for i := range a {
			if a[i].full != b[i].full {
				same = false
				break
			}
		}
	}
	if same {
		return ""
	}
	pos := 0
	for pos < len(a) && pos < len(b) && a[pos].full == b[pos].full {
		pos++
	}
	at := func(l []incrqDiag) string {
		if pos < len(l) {
			return l[pos].full
		}
		return "<end>"
	}
	if len(a) == len(b) {
		tie := true
		for i := range a {
			if a[i].key != b[i].key {
				tie = false
				break
			}
		}
		if tie {
			ms := func(l []incrqDiag) string {
				x := make([]string, len(l))
				for i, d := range l {
					x[i] = d.full
				}
				sort.Strings(x)
				return strings.Join(x, "\x00")
			}
			if ms(a) == ms(b) {
				return fmt.Sprintf("tieorder pos %d [%s] vs [%s]", pos, at(a), at(b))
			}
		}
	}
	return fmt.Sprintf("n=%d/%d pos %d [%s] vs [%s]", len(a), len(b), pos, at(a), at(b))
}

// incrqErrText builds an INVALID file: errs is a string of error tokens
//
//	l lexical (stray character)      s syntactic (field without a name)
//	u name resolution (unknown type; repeatable)   d duplicate field number
//	t duplicate field name           n duplicate message name Dup (within / across files)
//	m import of a file that does not exist
func incrqErrText(i int, imports []int, errs string) string {
	var b strings.Builder
	b.WriteString("syntax = \"proto3\";\npackage p;\n")
	for _, j := range imports {
		fmt.Fprintf(&b, "import %q;\n", incrqPath(j))
	}
	for n := 0; n < strings.Count(errs, "m"); n++ {
		fmt.Fprintf(&b, "import \"nope%d_%d.proto\";\n", i, n)
	}
	fmt.Fprintf(&b, "message M%d {\n  int32 x = 1;\n", i)
	num := 10
	for n, c := range errs {
		switch c {
		case 'l':
			fmt.Fprintf(&b, "  int32 a%d$b = %d;\n", n, num)
		case 's':
			fmt.Fprintf(&b, "  int32 = %d;\n", num)
		case 'u':
			fmt.Fprintf(&b, "  Zed%d z%d = %d;\n", n, n, num)
		case 'd':
			fmt.Fprintf(&b, "  int32 d%d = 1;\n", n)
		case 't':
			fmt.Fprintf(&b, "  int32 x = %d;\n", num)
		}
		num++
	}
	b.WriteString("}\n")
	for n := 0; n < strings.Count(errs, "n"); n++ {
		b.WriteString("message Dup {}\n")
	}
	return b.String()
}

var (
	incrqIdentRe = regexp.MustCompile(`^[A-Za-z][A-Za-z0-9_]*$`)
	incrqPkgRe   = regexp.MustCompile(`^[a-z][a-z0-9_]*(\.[a-z][a-z0-9_]*)*$`)
	incrqRefRe   = regexp.MustCompile(`^[A-Za-z][A-Za-z0-9_]*(\.[A-Za-z][A-Za-z0-9_]*)*$`)
	incrqImpRe   = regexp.MustCompile(`import "f([0-9]+)\.proto";`)
)

// incrqDeclText builds a proto2 file from `;`-separated declarations (ok=false: malformed):
//
//	M<Name>[:<m>,<m>..]   message; a member starting with an upper-case letter is a nested empty message,
//	                      any other member `optional int32 <m> = <k>;` (k = 1, 2, ..)
//	X<Name>               message <Name> { extensions 100 to 200; }
//	E<Ref>:<field>=<num>  extend <Ref> { optional int32 <field> = <num>; }
//
// pkg "-" = no package statement.
func incrqDeclText(imports []int, pkg, decls string) (string, bool) {
	var b strings.Builder
	b.WriteString("syntax = \"proto2\";\n")
	if pkg != "-" {
		if !incrqPkgRe.MatchString(pkg) {
			return "", false
		}
		fmt.Fprintf(&b, "package %s;\n", pkg)
	}
	for _, j := range imports {
		fmt.Fprintf(&b, "import %q;\n", incrqPath(j))
	}
	for _, d := range strings.Split(decls, ";") {
		if len(d) < 2 {
			return "", false
		}
		head, rest, has := strings.Cut(d[1:], ":")
		switch d[0] {
		case 'M':
			if !incrqIdentRe.MatchString(head) {
				return "", false
			}
			fmt.Fprintf(&b, "message %s {\n", head)
			if has {
				k := 1
				for _, m := range strings.Split(rest, ",") {
					if !incrqIdentRe.MatchString(m) {
						return "", false
					}
					if m[0] >= 'A' && m[0] <= 'Z' {
						fmt.Fprintf(&b, "  message %s {}\n", m)
					} else {
						fmt.Fprintf(&b, "  optional int32 %s = %d;\n", m, k)
						k++
					}
				}
			}
			b.WriteString("}\n")
		case 'X':
			if has || !incrqIdentRe.MatchString(head) {
				return "", false
			}
			fmt.Fprintf(&b, "message %s {\n  extensions 100 to 200;\n}\n", head)
		case 'E':
			f, num, ok := strings.Cut(rest, "=")
			n, err := strconv.Atoi(num)
			if strings.Trim(num, "0123456789") != "" {
				return "", false
			}
			if !has || !ok || err != nil || n < 1 || n > 536870911 || !incrqRefRe.MatchString(head) || !incrqIdentRe.MatchString(f) {
				return "", false
			}
			fmt.Fprintf(&b, "extend %s {\n  optional int32 %s = %d;\n}\n", head, f, n)
		default:
			return "", false
		}
	}
	return b.String(), true
}

// warmSet returns the workspace paths followed by the existing files they import, transitively
// (in order of discovery): the files whose lowering a compilation of the workspace performs.
func (e *incrqEngine) warmSet(paths []string) []string {
	e.mem.mu.Lock()
	defer e.mem.mu.Unlock()
	seen := map[string]bool{}
	var out []string
	queue := append([]string{}, paths...)
	for len(queue) > 0 {
		p := queue[0]
		queue = queue[1:]
		if seen[p] {
			continue
		}
		seen[p] = true
		out = append(out, p)
		for _, m := range incrqImpRe.FindAllStringSubmatch(e.mem.files[p], -1) {
			q := "f" + m[1] + ".proto"
			if _, ok := e.mem.files[q]; ok {
				queue = append(queue, q)
			}
		}
	}
	return out
}

// incrqOrders returns the lowering orders to force for the given files: every permutation of up to
// 3 files, else identity, reverse, rotation by one and a shuffle seeded by the file names and seed.
func incrqOrders(files []string, seed string) [][]string {
	n := len(files)
	var out [][]string
	seenOrd := map[string]bool{}
	add := func(o []string) {
		k := strings.Join(o, ",")
		if !seenOrd[k] {
			seenOrd[k] = true
			out = append(out, o)
		}
	}
	if n <= 3 {
		var rec func(pre, rest []string)
		rec = func(pre, rest []string) {
			if len(rest) == 0 {
				add(append([]string{}, pre...))
				return
			}
			for i := range rest {
				r2 := append(append([]string{}, rest[:i]...), rest[i+1:]...)
				rec(append(pre, rest[i]), r2)
			}
		}
		rec(nil, files)
		return out
	}
	add(append([]string{}, files...))
	rev := make([]string, n)
	for i, f := range files {
		rev[n-1-i] = f
	}
	add(rev)
	add(append(append([]string{}, files[1:]...), files[0]))
	// FNV-1a seeded Fisher-Yates
	h := uint64(14695981039346656037)
	for _, c := range []byte(seed + "|" + strings.Join(files, ",")) {
		h = (h ^ uint64(c)) * 1099511628211
	}
	sh := append([]string{}, files...)
	for i := n - 1; i > 0; i-- {
		h = h*6364136223846793005 + 1442695040888963407
		j := int((h >> 33) % uint64(i+1))
		sh[i], sh[j] = sh[j], sh[i]
	}
	add(sh)
	return out
}

// incrqCause names a recognised cause of a difference between two diagnostic lists ("" = none).
//
// duplicate-symbol-scan-stops-early: every diagnostic that only one side has is a Link-stage
// "`X` declared multiple times" error, and the side that lacks it reports another such error
// mentioning one of the same files (ir.DedupExportedSymbols leaves a file's symbol loop at the
// first child of an already duplicated parent, so the rest of that file's symbols - in intern-ID,
// i.e. lowering, order - is not looked at).
func incrqCause(a, b []incrqDiag) string {
	count := func(l []incrqDiag) map[string]int {
		m := map[string]int{}
		for _, d := range l {
			m[d.full]++
		}
		return m
	}
	ca, cb := count(a), count(b)
	isDup := func(d incrqDiag) bool {
		return d.level == int(report.Error) && strings.HasSuffix(d.msg, "` declared multiple times") && strings.HasPrefix(d.msg, "`")
	}
	oneSided := func(l []incrqDiag, other map[string]int, otherList []incrqDiag) (int, bool) {
		n := 0
		for _, d := range l {
			if other[d.full] > 0 {
				other[d.full]--
				continue
			}
			n++
			if !isDup(d) {
				return n, false
			}
			found := false
			for _, o := range otherList {
				if !isDup(o) || o.full == d.full {
					continue
				}
				for _, f := range o.files {
					for _, g := range d.files {
						if f != "" && f == g {
							found = true
						}
					}
				}
			}
			if !found {
				return n, false
			}
		}
		return n, true
	}
	na, oka := oneSided(a, cb, b)
	nb, okb := oneSided(b, ca, a)
	if oka && okb && na+nb > 0 {
		return "duplicate-symbol-scan-stops-early"
	}
	return ""
}

func incrqCompile(ex *incremental.Executor, op source.Opener, sess *ir.Session, ws source.Workspace) (out incrqOutcome) {
	defer func() {
		if r := recover(); r != nil {
			out.err = "PANIC:" + Canon(fmt.Sprint(r))
		}
	}()
	ctx := context.Background()
	res, rep, err := incremental.Run(ctx, ex, queries.Link{Opener: op, Session: sess, Workspace: ws})
	if err != nil {
		out.err = incrErrClass(err)
		return out
	}
	if res[0].Fatal != nil {
		out.fatal = Canon(res[0].Fatal.Error())
	}
	for _, f := range res[0].Value {
		if f != nil {
			out.nfiles++
		}
	}
	// The order in which Run reports diagnostics that compare equal under Report.Canonicalize's
	// key is not deterministic (C36's subject): compare the diagnostics as a multiset, each one
	// rendered on its own.
	_, nerr, _ := report.Renderer{}.RenderString(rep)
	out.linkDiags = incrqDiagList(rep)
	var each []string
	for _, d := range rep.Diagnostics {
		one := &report.Report{Options: rep.Options, Diagnostics: []report.Diagnostic{d}}
		t, _, _ := report.Renderer{}.RenderString(one)
		each = append(each, t)
	}
	sort.Strings(each)
	out.diags, out.nerr = strings.Join(each, "\n--\n"), nerr
	{
		// the descriptors always go through queries.FDS / queries.FDP (also for workspaces with
		// errors: the partial descriptors of the two executors must agree as well)
		var o fdp.Options
		fr, frep, err := incremental.Run(ctx, ex, queries.FDS{Opener: op, Session: sess, Workspace: ws, Options: o})
		out.fdsDiags = incrqDiagList(frep)
		switch {
		case err != nil:
			out.fds = "err:" + incrErrClass(err)
		case fr[0].Fatal != nil:
			out.fds = "fatal:" + Canon(fr[0].Fatal.Error())
		default:
			b, merr := proto.MarshalOptions{Deterministic: true}.Marshal(fr[0].Value)
			if merr != nil {
				out.fds = "marshal:" + Canon(merr.Error())
			} else {
				out.fds = string(b)
			}
		}
	}
	return out
}

var (
	incrqPathRe = regexp.MustCompile(`[pP]ath:"([^"]*)"`)
	incrqPtrRe  = regexp.MustCompile(`\(0x[0-9a-f]+\)`)
)

// abstractKey maps a query key to the abstract name used on the wire.
func (e *incrqEngine) abstractKey(k any) string {
	s := fmt.Sprintf("%#v", k)
	pathIdx := func() string {
		m := incrqPathRe.FindStringSubmatch(s)
		if m == nil {
			return "?"
		}
		if m[1] == incrqDescriptor {
			return "0"
		}
		if strings.HasPrefix(m[1], "f") && strings.HasSuffix(m[1], ".proto") {
			return strings.TrimSuffix(strings.TrimPrefix(m[1], "f"), ".proto")
		}
		var a, b int
		if n, _ := fmt.Sscanf(m[1], "nope%d_%d.proto", &a, &b); n == 2 {
			return strconv.Itoa(1000*a + b) // the never-existing imports of putx files
		}
		return "?" + m[1]
	}
	switch {
	case strings.HasPrefix(s, "queries.File{"):
		if strings.Contains(s, "ReportError:true") {
			return "F1:" + pathIdx()
		}
		return "F0:" + pathIdx()
	case strings.HasPrefix(s, "queries.AST{"):
		return "A:" + pathIdx()
	case strings.HasPrefix(s, "queries.key{"):
		return "I:" + pathIdx()
	case strings.HasPrefix(s, "queries.Link{"):
		if l, ok := k.(queries.Link); ok {
			var ps []string
			for _, p := range l.Workspace.Paths() {
				ps = append(ps, strings.TrimSuffix(strings.TrimPrefix(p, "f"), ".proto"))
			}
			return "L:" + strings.Join(ps, "+")
		}
		return "L:?"
	case strings.HasPrefix(s, "incremental.ZeroQuery"):
		return "Z"
	case strings.HasPrefix(s, "queries.FDS{"):
		if l, ok := k.(queries.FDS); ok {
			var ps []string
			for _, p := range l.Workspace.Paths() {
				ps = append(ps, strings.TrimSuffix(strings.TrimPrefix(p, "f"), ".proto"))
			}
			return "S:" + strings.Join(ps, "+")
		}
		return "S:?"
	case strings.HasPrefix(s, "queries.FDP{"):
		if l, ok := k.(queries.FDP); ok && l.File != nil {
			if lab, ok := e.fdpLabel[l.File]; ok {
				return lab
			}
			return "P:unlabelled"
		}
		return "P:?"
	}
	return "?" + incrqPtrRe.ReplaceAllString(s, "")
}

// labelFDPs gives every IR file that has an FDP task a stable label.
func (e *incrqEngine) labelFDPs() {
	var fresh []*ir.File
	for _, t := range e.ex.VerifDump() {
		if l, ok := t.Key.(queries.FDP); ok && l.File != nil {
			if _, seen := e.fdpLabel[l.File]; !seen {
				fresh = append(fresh, l.File)
			}
		}
	}
	sort.Slice(fresh, func(i, j int) bool { return fresh[i].Path() < fresh[j].Path() })
	for _, f := range fresh {
		p := f.Path()
		idx := strings.TrimSuffix(strings.TrimPrefix(p, "f"), ".proto")
		if p == incrqDescriptor {
			idx = "0"
		}
		e.fdpCount[p]++
		e.fdpLabel[f] = fmt.Sprintf("P:%s#%d", idx, e.fdpCount[p])
	}
}

func (e *incrqEngine) keysField() string {
	e.labelFDPs()
	var ks []string
	for _, t := range e.ex.VerifDump() {
		if t.State != 2 {
			continue
		}
		if a := e.abstractKey(t.Key); a != "" {
			ks = append(ks, a)
		}
	}
	sort.Strings(ks)
	if len(ks) == 0 {
		return "keys=-"
	}
	return "keys=" + strings.Join(ks, ",")
}

func (e *incrqEngine) dump() string {
	e.labelFDPs()
	var parts []string
	for _, t := range e.ex.VerifDump() {
		a := e.abstractKey(t.Key)
		if a == "" {
			continue
		}
		conv := func(xs []any) string {
			var out []string
			for _, x := range xs {
				if n := e.abstractKey(x); n != "" {
					out = append(out, n)
				}
			}
			sort.Strings(out)
			if len(out) == 0 {
				return "-"
			}
			return strings.Join(out, ",")
		}
		st := "n"
		switch t.State {
		case 1:
			st = "p"
		case 2:
			st = "d"
		}
		parts = append(parts, fmt.Sprintf("%s[%s]d=%s;c=%s", a, st, conv(t.Deps), conv(t.Callers)))
	}
	sort.Strings(parts)
	if len(parts) == 0 {
		return "tasks -"
	}
	return "tasks " + strings.Join(parts, " ")
}

// shape inspects the query sources syntactically.
func incrqShape() string {
	repo := os.Getenv("VERIF_REPO")
	if repo == "" {
		repo = "/repo"
	}
	dir := filepath.Join(repo, "experimental", "incremental", "queries")
	fset := token.NewFileSet()
	files, err := filepath.Glob(filepath.Join(dir, "*.go"))
	if err != nil || len(files) == 0 {
		return "shape-error no files"
	}
	sort.Strings(files)
	var parts []string
	for _, f := range files {
		if strings.HasSuffix(f, "_test.go") || strings.HasSuffix(f, "_verif.go") {
			continue
		}
		af, err := parser.ParseFile(fset, f, nil, 0)
		if err != nil {
			return "shape-error " + Canon(err.Error())
		}
		opens, resolves := false, false
		lits := map[string]bool{}
		for _, d := range af.Decls {
			fd, ok := d.(*ast.FuncDecl)
			if !ok || fd.Name.Name != "Execute" || fd.Body == nil {
				continue
			}
			ast.Inspect(fd.Body, func(n ast.Node) bool {
				switch x := n.(type) {
				case *ast.CallExpr:
					if sel, ok := x.Fun.(*ast.SelectorExpr); ok {
						if sel.Sel.Name == "Open" {
							opens = true
						}
						if id, ok := sel.X.(*ast.Ident); ok && id.Name == "incremental" && sel.Sel.Name == "Resolve" {
							resolves = true
						}
					}
				case *ast.CompositeLit:
					switch t := x.Type.(type) {
					case *ast.Ident:
						switch t.Name {
						case "File", "AST", "IR", "Link", "FDP", "FDS":
							lits[t.Name] = true
						}
					case *ast.IndexExpr:
						if sel, ok := t.X.(*ast.SelectorExpr); ok && sel.Sel.Name == "ZeroQuery" {
							lits["ZeroQuery"] = true
						}
					}
				}
				return true
			})
		}
		var ls []string
		for l := range lits {
			ls = append(ls, l)
		}
		sort.Strings(ls)
		l := "-"
		if len(ls) > 0 {
			l = strings.Join(ls, ",")
		}
		flag := ""
		if opens {
			flag += "o"
		}
		if resolves {
			flag += "r"
		}
		if flag == "" {
			flag = "-"
		}
		parts = append(parts, fmt.Sprintf("%s:%s:%s", filepath.Base(f), flag, l))
	}
	return "shape " + strings.Join(parts, " ")
}

// compileWatched runs incrqCompile under a soft deadline (see incr.go): a hang is concluded
// only when nothing can make progress any more.
func (e *incrqEngine) compileWatched(ex *incremental.Executor, sess *ir.Session, ws source.Workspace) (incrqOutcome, bool) {
	ch := make(chan incrqOutcome, 1)
	go func() { ch <- incrqCompile(ex, e.op, sess, ws) }()
	timer := time.NewTimer(20 * time.Second)
	defer timer.Stop()
	hardCap := time.Now().Add(4 * incrHardCap)
	quiet := 0
	for {
		select {
		case o := <-ch:
			return o, true
		case <-timer.C:
			if incrAllParked() {
				quiet++
			} else {
				quiet = 0
			}
			if quiet >= incrQuietSamples || time.Now().After(hardCap) {
				return incrqOutcome{}, false
			}
			timer.Reset(incrSampleEvery)
		}
	}
}

// warmWatched lowers the given files one by one (one Run of queries.IR each) under the same soft
// deadline as compileWatched. Errors and fatal results of the warm-up runs are not looked at: the
// compilation that follows reports them.
func (e *incrqEngine) warmWatched(ex *incremental.Executor, sess *ir.Session, order []string) bool {
	ch := make(chan struct{}, 1)
	go func() {
		defer func() {
			_ = recover() // a panic shows again (and is reported) in the compilation that follows
			ch <- struct{}{}
		}()
		for _, p := range order {
			_, _, _ = incremental.Run(context.Background(), ex, queries.IR{Opener: e.op, Session: sess, Path: p})
		}
	}()
	timer := time.NewTimer(20 * time.Second)
	defer timer.Stop()
	hardCap := time.Now().Add(4 * incrHardCap)
	quiet := 0
	for {
		select {
		case <-ch:
			return true
		case <-timer.C:
			if incrAllParked() {
				quiet++
			} else {
				quiet = 0
			}
			if quiet >= incrQuietSamples || time.Now().After(hardCap) {
				return false
			}
			timer.Reset(incrSampleEvery)
		}
	}
}

func (e *incrqEngine) Exec(op string) string {
	w := strings.Fields(op)
	if len(w) == 0 {
		return "bad-op"
	}
	switch w[0] {
	case "new":
		if len(w) != 2 {
			return "bad-op"
		}
		p, err := strconv.Atoi(w[1])
		if err != nil || p < 1 || p > 64 {
			return "bad-op"
		}
		e.fresh(p)
		return "ok"
	case "put":
		if len(w) != 4 {
			return "bad-op"
		}
		i, err1 := strconv.Atoi(w[1])
		imps, ok := incrInts(w[2])
		v, err2 := strconv.Atoi(w[3])
		if err1 != nil || err2 != nil || !ok || i < 1 || v < 0 {
			return "bad-op"
		}
		for _, j := range imps {
			if j < 1 {
				return "bad-op"
			}
		}
		e.mem.mu.Lock()
		e.mem.files[incrqPath(i)] = incrqText(i, imps, v)
		e.mem.mu.Unlock()
		return "ok"
	case "putx":
		// putx <i> <imports|-> <error tokens|->: an invalid file (see incrqErrText)
		if len(w) != 4 {
			return "bad-op"
		}
		i, err1 := strconv.Atoi(w[1])
		imps, ok := incrInts(w[2])
		if err1 != nil || !ok || i < 1 {
			return "bad-op"
		}
		errs := w[3]
		if errs == "-" {
			errs = ""
		}
		if strings.Trim(errs, "lsudtnm") != "" {
			return "bad-op"
		}
		for _, j := range imps {
			if j < 1 {
				return "bad-op"
			}
		}
		e.mem.mu.Lock()
		e.mem.files[incrqPath(i)] = incrqErrText(i, imps, errs)
		e.mem.mu.Unlock()
		return "ok"
	case "putd":
		// putd <i> <imports|-> <pkg|-> <decls>: a proto2 file built from declarations (see incrqDeclText)
		if len(w) != 5 {
			return "bad-op"
		}
		i, err1 := strconv.Atoi(w[1])
		imps, ok := incrInts(w[2])
		if err1 != nil || !ok || i < 1 {
			return "bad-op"
		}
		for _, j := range imps {
			if j < 1 {
				return "bad-op"
			}
		}
		text, ok := incrqDeclText(imps, w[3], w[4])
		if !ok {
			return "bad-op"
		}
		e.mem.mu.Lock()
		e.mem.files[incrqPath(i)] = text
		e.mem.mu.Unlock()
		return "ok"
	case "diag":
		// diag <i,j,..> <reps>: compile the workspace reps times on the long-lived executor (no
		// eviction in between) and once each on brand-new executors with parallelism 1, 2, 4, 8;
		// all reports (Link run and FDS run) must be the same ordered lists
		if len(w) != 3 {
			return "bad-op"
		}
		is, ok := incrInts(w[1])
		reps, err := strconv.Atoi(w[2])
		if !ok || len(is) == 0 || err != nil || reps < 1 || reps > 16 {
			return "bad-op"
		}
		var paths []string
		for _, i := range is {
			if i < 1 {
				return "bad-op"
			}
			paths = append(paths, incrqPath(i))
		}
		ws := e.ws[w[1]]
		if ws == nil {
			ws = source.NewWorkspace(paths...)
			e.ws[w[1]] = ws
		}
		var base incrqOutcome
		verdict := ""
		// a genuine difference outranks a difference with a recognised cause, which outranks a
		// reordering of key ties: the first verdict of the highest rank is reported
		rank := 0
		set := func(r int, v string) {
			if r > rank {
				rank, verdict = r, v
			}
		}
		cmp := func(kind string, o incrqOutcome) {
			if o.err != base.err {
				set(3, fmt.Sprintf("differ:%s run-error [%s] vs [%s]", kind, base.err, o.err))
				return
			}
			for _, side := range []struct {
				name string
				a, b []incrqDiag
			}{{"link", base.linkDiags, o.linkDiags}, {"fds", base.fdsDiags, o.fdsDiags}} {
				d := incrqDiagDiff(side.a, side.b)
				switch {
				case d == "":
					continue
				case strings.HasPrefix(d, "tieorder"):
					set(1, fmt.Sprintf("tieorder:%s %s %s", kind, side.name, d))
				default:
					if c := incrqCause(side.a, side.b); c != "" {
						set(2, fmt.Sprintf("differ:%s cause=%s %s %s", kind, c, side.name, d))
					} else {
						set(3, fmt.Sprintf("differ:%s cause=unknown %s %s", kind, side.name, d))
					}
				}
				return
			}
		}
		for i := 0; i < reps; i++ {
			o, ok := e.compileWatched(e.ex, e.sess, ws)
			if !ok {
				return "ran ~ hang run " + strconv.Itoa(i)
			}
			if i == 0 {
				base = o
			} else {
				cmp(fmt.Sprintf("runs 0 vs %d", i), o)
			}
		}
		for _, p := range []int{1, 2, 4, 8} {
			o, ok := e.compileWatched(incremental.New(incremental.WithParallelism(int64(p))), new(ir.Session), ws)
			if !ok {
				return "ran ~ hang parallelism " + strconv.Itoa(p)
			}
			cmp(fmt.Sprintf("parallelism run0 vs p=%d", p), o)
		}
		// forced lowering orders: IR queries one by one on a fresh executor and session, then Link/FDS
		norders := 0
		for _, ord := range incrqOrders(e.warmSet(paths), op) {
			ex, sess := incremental.New(incremental.WithParallelism(1)), new(ir.Session)
			label := strings.ReplaceAll(strings.ReplaceAll(strings.Join(ord, ","), ".proto", ""), "f", "")
			if !e.warmWatched(ex, sess, ord) {
				return "ran ~ hang lowering order " + label
			}
			o, ok := e.compileWatched(ex, sess, ws)
			if !ok {
				return "ran ~ hang lowering order " + label
			}
			norders++
			cmp("lowering-order run0 vs order="+label, o)
		}
		if verdict == "" {
			verdict = fmt.Sprintf("same n=%d+%d e=%d orders=%d", len(base.linkDiags), len(base.fdsDiags), base.nerr, norders)
		}
		// the model does not predict diagnostics: everything after " ~ " is for the oracle only
		return "ran ~ " + Canon(verdict)
	case "del":
		if len(w) != 2 {
			return "bad-op"
		}
		i, err := strconv.Atoi(w[1])
		if err != nil || i < 1 {
			return "bad-op"
		}
		e.mem.mu.Lock()
		delete(e.mem.files, incrqPath(i))
		e.mem.mu.Unlock()
		return "ok"
	case "evict":
		var keys []any
		for _, s := range w[1:] {
			i, err := strconv.Atoi(s)
			if err != nil || i < 1 {
				return "bad-op"
			}
			keys = append(keys, queries.File{Opener: e.op, Path: incrqPath(i)})
		}
		e.ex.Evict(keys...)
		if e.name == "incr_diag" {
			return "ok"
		}
		return e.keysField()
	case "link":
		if len(w) != 2 {
			return "bad-op"
		}
		is, ok := incrInts(w[1])
		if !ok || len(is) == 0 {
			return "bad-op"
		}
		var paths []string
		for _, i := range is {
			if i < 1 {
				return "bad-op"
			}
			paths = append(paths, incrqPath(i))
		}
		ws := e.ws[w[1]]
		if ws == nil {
			ws = source.NewWorkspace(paths...)
			e.ws[w[1]] = ws
		}
		long, ok1 := e.compileWatched(e.ex, e.sess, ws)
		if !ok1 {
			return "hang long-lived"
		}
		fresh, ok2 := e.compileWatched(incremental.New(incremental.WithParallelism(int64(e.p))), new(ir.Session), ws)
		if !ok2 {
			return "hang fresh"
		}
		verdict := "agree"
		if d := long.diff(fresh); d != "" {
			verdict = "differ:" + d
			if f := os.Getenv("INCRQ_DEBUG"); f != "" {
				_ = os.WriteFile(f, []byte("==== long\n"+long.diags+"\n==== fresh\n"+fresh.diags+"\n"), 0o644)
			}
		}
		if long.err != "" {
			verdict += " err=" + long.err
		}
		return verdict + " " + e.keysField()
	case "dump":
		return e.dump()
	case "shape":
		return incrqShape()
	}
	return "bad-op"
}

func (e *incrqEngine) Trivial(op, ans string) bool { return ans == "ok" }

func (e *incrqEngine) Class(op, ans string) string {
	w := strings.Fields(op)
	if w[0] == "diag" {
		f := strings.Fields(strings.TrimPrefix(ans, "ran ~ "))
		if len(f) > 0 {
			c := strings.SplitN(f[0], ":", 2)[0]
			if c == "same" && len(f) > 1 && f[1] == "n=0+0" {
				return "diag-same-no-diagnostics"
			}
			return "diag-" + c
		}
	}
	if w[0] == "link" {
		if strings.HasPrefix(ans, "agree") {
			if strings.Contains(ans, "Z") {
				return "link-agree-missing-import"
			}
			return "link-agree"
		}
		return "link-" + strings.Fields(ans)[0]
	}
	return w[0]
}

// ---- generator

type incrqFile struct {
	imports []int
	v       int
	present bool
}

// genDiag: INVALID workspaces (errors at several stages and in several files), compiled
// repeatedly on one executor and on fresh executors of several parallelisms.
func (e *incrqEngine) genDiag(r *Rand, tier string) [][]string {
	var cases [][]string
	// directed: one file with 1 parse-stage and 3 IR-stage errors (and neighbours of that shape:
	// the memoized diagnostics slices of the IR and AST tasks have different spare capacities)
	for _, errs := range []string{"suuu", "su", "suu", "suuuu", "uuus", "lsuuu", "ssuuu", "suuud", "l", "u", "s", "-"} {
		cases = append(cases, []string{"new 1", "putx 1 - " + errs, "diag 1 3", "diag 1 2"})
	}
	cases = append(cases,
		[]string{"new 2", "putx 1 - suuu", "putx 2 1 uus", "diag 1,2 3", "diag 2 3", "diag 2,1 3"},
		[]string{"new 4", "putx 1 - n", "putx 2 - n", "putx 3 1,2 mu", "diag 1,2,3 3", "putx 2 - suuu", "evict 2", "diag 1,2,3 3", "del 1", "evict 1", "diag 1,2,3 3", "diag 3 3"},
		[]string{"new 3", "putx 1 - mm", "putx 2 - mm", "putx 3 - m", "diag 1,2,3 4"},
		// two workspace files that do not exist: their span-less "file does not exist" diagnostics
		// tie on Canonicalize's sort key, so their order is whatever order the tasks were visited in
		[]string{"new 4", "putx 1 - u", "diag 1,2,3 4", "diag 3,2,1 3"},
	)
	n := 40
	if tier == "thorough" {
		n = 1200
	}
	toks := []byte("lsudtnm")
	for c := 0; c < n; c++ {
		nf := 1 + r.Intn(4)
		ops := []string{fmt.Sprintf("new %d", Pick(r, []int{1, 2, 4, 8}))}
		gen := func(i int) string {
			var imps []int
			for j := 1; j < i; j++ {
				if r.Chance(1, 2) {
					imps = append(imps, j)
				}
			}
			var errs []byte
			if r.Chance(1, 2) {
				// the parse-error + k IR-errors shape
				errs = append(errs, 's')
				for k := 1 + r.Intn(4); k > 0; k-- {
					errs = append(errs, 'u')
				}
			} else {
				for k := r.Intn(5); k > 0; k-- {
					errs = append(errs, Pick(r, toks))
				}
			}
			if r.Chance(1, 3) {
				errs = []byte(incrShuffleBytes(r, errs))
			}
			es := string(errs)
			if es == "" {
				es = "-"
			}
			return fmt.Sprintf("putx %d %s %s", i, incrJoin(imps), es)
		}
		for i := 1; i <= nf; i++ {
			ops = append(ops, gen(i))
		}
		all := make([]int, nf)
		for i := range all {
			all[i] = i + 1
		}
		ops = append(ops, fmt.Sprintf("diag %s %d", incrJoin(all), 3+r.Intn(2)))
		if nf > 1 {
			ops = append(ops, fmt.Sprintf("diag %s 3", incrJoin(incrShuffle(r, all)[:1+r.Intn(nf)])))
		}
		if r.Chance(1, 2) {
			i := 1 + r.Intn(nf)
			if r.Chance(1, 4) {
				ops = append(ops, fmt.Sprintf("del %d", i))
			} else {
				ops = append(ops, gen(i))
			}
			ops = append(ops, fmt.Sprintf("evict %d", i), fmt.Sprintf("diag %s 3", incrJoin(all)))
		}
		cases = append(cases, ops)
	}
	// after the older families: their cases stay the same for a given seed
	cases = append(cases, e.genDiagOrders(r, tier)...)
	return cases
}

// genDiagOrders: workspaces whose Link-stage diagnostics are computed from session-wide intern
// IDs, i.e. from the order in which the files happened to be lowered: cross-file duplicate
// symbols (with children, declared in different orders in the files) and extension numbers used
// twice across files for extendees declared in unrelated files.
func (e *incrqEngine) genDiagOrders(r *Rand, tier string) [][]string {
	var cases [][]string
	// directed: a duplicated message with a child followed / preceded by a second duplicated
	// message (fully qualified names longer than 5 bytes are interned first come first served,
	// shorter ones are inlined into the ID)
	cases = append(cases,
		[]string{"new 1", "putd 1 - longpkg MFoooooo:barbarbar;MZedzedzed", "putd 2 - longpkg MZedzedzed;MFoooooo:barbarbar", "diag 1,2 2", "diag 2,1 2"},
		[]string{"new 2", "putd 1 - p MA:b;MZ", "putd 2 - p MZ;MA:b", "diag 1,2 2"},
		[]string{"new 2", "putd 1 - - MA:b;MZ", "putd 2 - - MZ;MA:b", "diag 1,2 2"},
		[]string{"new 4", "putd 1 - longpkg MAaaaaa:Inner,fieldone;MBbbbbb:fieldtwo;MCccccc", "putd 2 - longpkg MCccccc;MBbbbbb:fieldtwo;MAaaaaa:Inner,fieldone", "putd 3 - longpkg MBbbbbb;MCccccc:x", "diag 1,2,3 2", "diag 3,1 2"},
		// the same with an import between the files: the duplicate is found while lowering the importer
		[]string{"new 2", "putd 1 - longpkg MFoooooo:barbarbar;MZedzedzed", "putd 2 1 longpkg MZedzedzed;MFoooooo:barbarbar", "diag 1,2 2", "diag 2 2"},
		// extension numbers used twice across files; extendees declared in unrelated files
		[]string{"new 1", "putd 1 - longpkg XExtendeeOne", "putd 2 - longpkg XExtendeeTwo",
			"putd 3 1,2 longpkg EExtendeeTwo:e0=107;EExtendeeTwo:e1=101;EExtendeeOne:e2=101;EExtendeeOne:e3=100;EExtendeeOne:e4=106;EExtendeeTwo:e5=102;EExtendeeTwo:e6=100;EExtendeeOne:e7=103;EExtendeeTwo:e8=105;EExtendeeOne:e9=107",
			"putd 4 1,2 longpkg EExtendeeTwo:g0=100;EExtendeeOne:g1=107;EExtendeeTwo:g3=107;EExtendeeTwo:g4=104;EExtendeeTwo:g6=102",
			"diag 1,2,3,4 2", "diag 3,4 2", "diag 4,3,2,1 2"},
	)
	nd, nx := 10, 10
	if tier == "thorough" {
		nd, nx = 300, 300
	}
	long := []string{"Alphaaa", "Betaaaa", "Gammaaa", "Deltaaa", "Epsilon"}
	short := []string{"A", "B", "C", "D", "E"}
	lmem := []string{"fieldone", "fieldtwo", "Innerrr", "fieldthree"}
	smem := []string{"a", "b", "I", "c"}
	for c := 0; c < nd; c++ {
		// 2-3 files of one package declare subsets of a pool of messages, each file in its own order
		pkg := Pick(r, []string{"longpkg", "p", "-", "longpkg.sub"})
		names, mems := long, lmem
		if r.Chance(1, 3) {
			names, mems = short, smem
		} else if r.Chance(1, 4) {
			names = []string{"Alphaaa", "B", "Gammaaa", "D", "Epsilon"}
		}
		pool := 2 + r.Intn(4)
		// the members of a message are the same in every file that declares it (most of the time)
		body := make([]string, pool)
		for k := range body {
			var ms []string
			for _, m := range mems {
				if r.Chance(1, 3) {
					ms = append(ms, m)
				}
			}
			body[k] = strings.Join(ms, ",")
		}
		nf := 2 + r.Intn(2)
		ops := []string{fmt.Sprintf("new %d", Pick(r, []int{1, 2, 4, 8}))}
		all := make([]int, nf)
		for i := 1; i <= nf; i++ {
			all[i-1] = i
			var decls []string
			for _, k := range incrShuffle(r, incrRange(pool)) {
				if !r.Chance(3, 4) {
					continue
				}
				d := "M" + names[k]
				b := body[k]
				if r.Chance(1, 8) {
					b = mems[r.Intn(len(mems))]
				}
				if b != "" {
					d += ":" + b
				}
				decls = append(decls, d)
			}
			if len(decls) == 0 {
				decls = []string{fmt.Sprintf("MOnly%d", i)}
			}
			var imps []int
			if i > 1 && r.Chance(1, 5) {
				imps = append(imps, 1+r.Intn(i-1))
			}
			ops = append(ops, fmt.Sprintf("putd %d %s %s %s", i, incrJoin(imps), pkg, strings.Join(decls, ";")))
		}
		ops = append(ops, fmt.Sprintf("diag %s 2", incrJoin(all)))
		if r.Chance(1, 2) {
			ops = append(ops, fmt.Sprintf("diag %s 2", incrJoin(incrShuffle(r, all))))
		}
		cases = append(cases, ops)
	}
	for c := 0; c < nx; c++ {
		// k extendees in unrelated files, 2-3 files extending them with numbers from a small range
		k := 1 + r.Intn(3)
		if r.Chance(2, 3) && k == 1 {
			k = 2
		}
		xnames := []string{"ExtendeeOne", "ExtendeeTwo", "ExtendeeThree"}
		pkg := "longpkg"
		if r.Chance(1, 5) {
			xnames, pkg = []string{"X", "Y", "Z"}, "p"
		}
		ops := []string{fmt.Sprintf("new %d", Pick(r, []int{1, 2, 4, 8}))}
		var ms []int
		if r.Chance(1, 6) {
			// all extendees in one file
			var ds []string
			for j := 0; j < k; j++ {
				ds = append(ds, "X"+xnames[j])
			}
			ops = append(ops, fmt.Sprintf("putd 1 - %s %s", pkg, strings.Join(ds, ";")))
			ms = []int{1}
		} else {
			for j := 0; j < k; j++ {
				ops = append(ops, fmt.Sprintf("putd %d - %s X%s", j+1, pkg, xnames[j]))
				ms = append(ms, j+1)
			}
		}
		nxf := 2 + r.Intn(2)
		total := Pick(r, []int{6, 10, 12, 13, 14, 16, 20, 28})
		per := make([][]string, nxf)
		type use struct{ ext, num int }
		used := map[use][]int{}
		for n := 0; n < total; n++ {
			f := r.Intn(nxf)
			u := use{r.Intn(k), 100 + r.Intn(4+total/3)}
			// a number is used at most once per file and extendee (a repeat inside one file is an
			// IR-stage error of that file)
			dup := false
			for _, g := range used[u] {
				if g == f {
					dup = true
				}
			}
			if dup {
				continue
			}
			used[u] = append(used[u], f)
			per[f] = append(per[f], fmt.Sprintf("E%s:e%d_%d=%d", xnames[u.ext], f, n, u.num))
		}
		// at least one collision across files
		if len(per[0]) > 0 {
			d := per[0][r.Intn(len(per[0]))]
			head, num, _ := strings.Cut(d, "=")
			ext, _, _ := strings.Cut(head, ":")
			e0, _ := strconv.Atoi(num)
			x := 0
			for j, nme := range xnames {
				if "E"+nme == ext {
					x = j
				}
			}
			clash := false
			for _, g := range used[use{x, e0}] {
				if g == 1 {
					clash = true
				}
			}
			if !clash {
				per[1] = append(per[1], fmt.Sprintf("%s:clash=%d", ext, e0))
			}
		}
		var xs []int
		for f := 0; f < nxf; f++ {
			if len(per[f]) == 0 {
				per[f] = []string{fmt.Sprintf("MNone%d", f)}
			}
			i := len(ms) + f + 1
			xs = append(xs, i)
			ops = append(ops, fmt.Sprintf("putd %d %s %s %s", i, incrJoin(ms), pkg, strings.Join(per[f], ";")))
		}
		all := append(append([]int{}, ms...), xs...)
		ops = append(ops, fmt.Sprintf("diag %s 2", incrJoin(all)))
		switch r.Intn(3) {
		case 0:
			ops = append(ops, fmt.Sprintf("diag %s 2", incrJoin(xs))) // the extendees' files only as imports
		case 1:
			ops = append(ops, fmt.Sprintf("diag %s 2", incrJoin(incrShuffle(r, all))))
		}
		cases = append(cases, ops)
	}
	return cases
}

func incrRange(n int) []int {
	out := make([]int, n)
	for i := range out {
		out[i] = i
	}
	return out
}

func incrShuffleBytes(r *Rand, b []byte) []byte {
	out := append([]byte{}, b...)
	for i := len(out) - 1; i > 0; i-- {
		j := r.Intn(i + 1)
		out[i], out[j] = out[j], out[i]
	}
	return out
}

func (e *incrqEngine) Gen(r *Rand, tier string) [][]string {
	if e.name == "incr_diag" {
		return e.genDiag(r, tier)
	}
	thorough := tier == "thorough"
	var cases [][]string
	putLine := func(i int, imps []int, v int) string {
		return fmt.Sprintf("put %d %s %d", i, incrJoin(imps), v)
	}
	// directed: change a type, break and repair an import, add and remove files
	cases = append(cases,
		[]string{"shape", "new 2", "put 1 - 0", "put 2 1 2", "link 1,2", "dump",
			"put 1 - 1", "evict 1", "dump", "link 1,2", // rename M1 -> N1: f2 breaks
			"put 1 - 0", "evict 1", "link 1,2", // repair
			"del 1", "evict 1", "link 1,2", "link 2", // remove: missing import / missing workspace file
			"put 1 - 4", "evict 1", "link 2", "link 1,2", "dump",
			"put 3 1,2 2", "evict 3", "link 1,2,3", "put 2 - 6", "evict 2", "link 1,2,3", "link 3", "dump"},
		// an edit that touches ONLY an imported file and changes what the importer's descriptor derives
		// from name resolution: M1 switches message <-> enum (f2's field r0 changes TYPE_MESSAGE <->
		// TYPE_ENUM), is renamed away and back; only f1's File key is evicted
		[]string{"new 2", "put 1 - 0", "put 2 1 2", "put 3 2,1 2", "link 1,2,3", "dump",
			"put 1 - 10", "evict 1", "link 1,2,3", "link 2", "dump",
			"put 1 - 0", "evict 1", "link 2,3", "put 1 - 11", "evict 1", "link 1,2,3", "put 1 - 10", "evict 1", "link 3", "dump"},
		// invalid files with errors at several stages, compiled repeatedly without eviction
		[]string{"new 1", "putx 1 - suuu", "link 1", "link 1", "putx 2 1 uus", "evict 2", "link 1,2", "link 1,2", "link 2", "dump"},
		[]string{"new 1", "put 1 - 4", "put 2 - 4", "link 1,2", "put 2 - 0", "evict 2", "link 1,2", "link 2,1", "put 3 2,2,1 2", "evict 3", "link 3", "del 2", "evict 2", "link 3", "dump"},
	)
	n := 60
	if thorough {
		n = 1500
	}
	for c := 0; c < n; c++ {
		nf := 2 + r.Intn(4)
		files := make([]incrqFile, nf+1)
		ops := []string{fmt.Sprintf("new %d", 1+r.Intn(4))}
		edit := func(i int) {
			var imps []int
			for j := 1; j < i; j++ {
				if r.Chance(1, 2) {
					imps = append(imps, j)
				}
			}
			if r.Chance(1, 8) && i < nf {
				imps = append(imps, nf+1+r.Intn(2)) // a file that never exists
			}
			if r.Chance(1, 10) && len(imps) > 0 {
				imps = append(imps, imps[0]) // duplicate import
			}
			v := r.Intn(12)
			switch {
			case len(imps) > 0 && r.Chance(1, 2):
				v = 2 + r.Intn(2) // bias towards files that reference their imports
			case len(imps) == 0 && r.Chance(1, 2):
				v = Pick(r, []int{0, 10, 0, 10, 1, 11}) // imported leaves toggle message <-> enum (and rename)
			}
			files[i] = incrqFile{imports: imps, v: v, present: true}
			ops = append(ops, putLine(i, imps, v))
		}
		for i := 1; i <= nf; i++ {
			if r.Chance(5, 6) {
				edit(i)
			}
		}
		wsOf := func() string {
			var ws []int
			for i := 1; i <= nf; i++ {
				if (files[i].present && r.Chance(3, 4)) || r.Chance(1, 12) {
					ws = append(ws, i)
				}
			}
			if len(ws) == 0 {
				ws = []int{1 + r.Intn(nf)}
			}
			if r.Chance(1, 4) {
				ws = incrShuffle(r, ws)
			}
			return incrJoin(ws)
		}
		ops = append(ops, "link "+wsOf())
		steps := 3 + r.Intn(4)
		for s := 0; s < steps; s++ {
			// an edit step: change 1-2 files, evict exactly those, recompile
			var changed []int
			for k := 0; k < 1+r.Intn(2); k++ {
				i := 1 + r.Intn(nf)
				if files[i].present && r.Chance(1, 4) {
					files[i].present = false
					ops = append(ops, fmt.Sprintf("del %d", i))
				} else {
					edit(i)
				}
				changed = append(changed, i)
			}
			if r.Chance(1, 6) {
				changed = append(changed, 1+r.Intn(nf+1)) // evicting more than needed is allowed
			}
			ops = append(ops, "evict "+strings.Join(incrIntsToStrs(changed), " "))
			if r.Chance(1, 3) {
				ops = append(ops, "dump")
			}
			ops = append(ops, "link "+wsOf())
			if r.Chance(1, 4) {
				ops = append(ops, "link "+wsOf())
			}
		}
		ops = append(ops, "dump")
		cases = append(cases, ops)
	}
	return cases
}
