package engines

// Calibration of the optvalidate reference against the protoc-validated table of
// /repo/linker/linker_test.go (TestLinkerValidation), regenerated from the repository on every run
// (DESIGN.md 3.4): every case whose expected error text belongs to the rules of this engine — and
// every success case — whose sources lie inside the abstract syntax is parsed, linked and its
// options interpreted with the REAL packages (parser.Parse, parser.ResultFromAST, linker.Link,
// options.InterpretOptions; ValidateOptions is NOT run), the resulting descriptor is transcribed
// into an `fs` file set and emitted as
//
//	an <case> <go:ok|err> <protoc:ok|err> fs …
//
// The model/implementation answer to an `an` op is the answer to its `fs` part (re-rendered with
// the engine's own names); the oracle demands reference(fs) = <protoc> and implementation = <go>.
// (expectedDiffWithProtoc flips <protoc>.)

import (
	"fmt"
	"go/ast"
	goparser "go/parser"
	"go/token"
	"os"
	"path/filepath"
	"reflect"
	"runtime/debug"
	"sort"
	"strconv"
	"strings"

	"google.golang.org/protobuf/proto"
	"google.golang.org/protobuf/reflect/protoreflect"
	"google.golang.org/protobuf/types/descriptorpb"

	"github.com/bufbuild/protocompile/linker"
	"github.com/bufbuild/protocompile/options"
	"github.com/bufbuild/protocompile/parser"
	"github.com/bufbuild/protocompile/reporter"
)

func ovRepoDir() string {
	if d := os.Getenv("VERIF_REPO"); d != "" {
		if _, err := os.Stat(filepath.Join(d, "go.mod")); err == nil {
			return d
		}
	}
	if bi, ok := debug.ReadBuildInfo(); ok {
		for _, dep := range bi.Deps {
			if dep.Path == "github.com/bufbuild/protocompile" && dep.Replace != nil {
				return dep.Replace.Path
			}
		}
	}
	return "/repo"
}

type ovTableCase struct {
	name        string
	files       map[string]string
	expectedErr string
	diff        bool
}

func ovStringLit(e ast.Expr) (string, bool) {
	switch v := e.(type) {
	case *ast.BasicLit:
		if v.Kind != token.STRING {
			return "", false
		}
		s, err := strconv.Unquote(v.Value)
		return s, err == nil
	case *ast.BinaryExpr:
		if v.Op != token.ADD {
			return "", false
		}
		a, ok1 := ovStringLit(v.X)
		b, ok2 := ovStringLit(v.Y)
		return a + b, ok1 && ok2
	case *ast.ParenExpr:
		return ovStringLit(v.X)
	}
	return "", false
}

// ovTableCases extracts the entries of `testCases := map[string]struct{…}{…}` of TestLinkerValidation.
func ovTableCases(file string) []ovTableCase {
	fset := token.NewFileSet()
	f, err := goparser.ParseFile(fset, file, nil, 0)
	if err != nil {
		return nil
	}
	var out []ovTableCase
	for _, d := range f.Decls {
		fd, ok := d.(*ast.FuncDecl)
		if !ok || fd.Name.Name != "TestLinkerValidation" {
			continue
		}
		ast.Inspect(fd.Body, func(n ast.Node) bool {
			as, ok := n.(*ast.AssignStmt)
			if !ok || len(as.Lhs) != 1 || len(as.Rhs) != 1 {
				return true
			}
			id, ok := as.Lhs[0].(*ast.Ident)
			if !ok || id.Name != "testCases" {
				return true
			}
			cl, ok := as.Rhs[0].(*ast.CompositeLit)
			if !ok {
				return true
			}
			for _, el := range cl.Elts {
				kv, ok := el.(*ast.KeyValueExpr)
				if !ok {
					continue
				}
				name, ok := ovStringLit(kv.Key)
				body, ok2 := kv.Value.(*ast.CompositeLit)
				if !ok || !ok2 {
					continue
				}
				c := ovTableCase{name: name, files: map[string]string{}}
				good := true
				for _, fe := range body.Elts {
					fkv, ok := fe.(*ast.KeyValueExpr)
					if !ok {
						good = false
						continue
					}
					key, _ := fkv.Key.(*ast.Ident)
					if key == nil {
						good = false
						continue
					}
					switch key.Name {
					case "input":
						m, ok := fkv.Value.(*ast.CompositeLit)
						if !ok {
							good = false
							break
						}
						for _, me := range m.Elts {
							mkv, ok := me.(*ast.KeyValueExpr)
							if !ok {
								good = false
								continue
							}
							k, ok1 := ovStringLit(mkv.Key)
							v, ok2 := ovStringLit(mkv.Value)
							if !ok1 || !ok2 {
								good = false
							}
							c.files[k] = v
						}
					case "expectedErr":
						s, ok := ovStringLit(fkv.Value)
						if !ok {
							good = false
						}
						c.expectedErr = s
					case "expectedDiffWithProtoc":
						if id, ok := fkv.Value.(*ast.Ident); ok && id.Name == "true" {
							c.diff = true
						}
					case "inputOrder", "expectProtodescFail":
					default:
						good = false
					}
				}
				if good && len(c.files) > 0 {
					out = append(out, c)
				}
			}
			return false
		})
	}
	sort.Slice(out, func(i, j int) bool { return out[i].name < out[j].name })
	return out
}

// ---------------------------------------------------------------- descriptor -> abstract file set

type ovConv struct {
	bad      string
	msgIdx   map[string][2]int // full name -> (file, index) of top-level messages
	enumIdx  map[string][2]int
	rename   map[string]string // old full name -> new full name (messages, enums, extensions, group messages)
	pkgOf    []string
	noLabel  map[*descriptorpb.FieldDescriptorProto]bool
	stmtNode map[*descriptorpb.DescriptorProto_ExtensionRange]any
}

func (c *ovConv) fail(why string) {
	if c.bad == "" {
		c.bad = why
	}
}

func ovQual(pkg, name string) string {
	if pkg == "" {
		return name
	}
	return pkg + "." + name
}

var ovScalarOfType = map[descriptorpb.FieldDescriptorProto_Type]string{
	descriptorpb.FieldDescriptorProto_TYPE_INT32: "int32", descriptorpb.FieldDescriptorProto_TYPE_INT64: "int64",
	descriptorpb.FieldDescriptorProto_TYPE_UINT32: "uint32", descriptorpb.FieldDescriptorProto_TYPE_UINT64: "uint64",
	descriptorpb.FieldDescriptorProto_TYPE_SINT32: "sint32", descriptorpb.FieldDescriptorProto_TYPE_SINT64: "sint64",
	descriptorpb.FieldDescriptorProto_TYPE_FIXED32: "fixed32", descriptorpb.FieldDescriptorProto_TYPE_FIXED64: "fixed64",
	descriptorpb.FieldDescriptorProto_TYPE_SFIXED32: "sfixed32", descriptorpb.FieldDescriptorProto_TYPE_SFIXED64: "sfixed64",
	descriptorpb.FieldDescriptorProto_TYPE_BOOL: "bool", descriptorpb.FieldDescriptorProto_TYPE_FLOAT: "float",
	descriptorpb.FieldDescriptorProto_TYPE_DOUBLE: "double", descriptorpb.FieldDescriptorProto_TYPE_STRING: "string",
	descriptorpb.FieldDescriptorProto_TYPE_BYTES: "bytes",
}

func ovTriOf(b *bool) string {
	switch {
	case b == nil:
		return "-"
	case *b:
		return "t"
	}
	return "f"
}

// only the listed fields of an options message may be set
func ovOnlyFields(m proto.Message, allowed ...string) bool {
	ok := true
	if m == nil {
		return true
	}
	r := m.ProtoReflect()
	if !r.IsValid() {
		return true
	}
	if len(r.GetUnknown()) > 0 {
		return false
	}
	r.Range(func(fd protoreflect.FieldDescriptor, _ protoreflect.Value) bool {
		name := string(fd.Name())
		for _, a := range allowed {
			if a == name {
				return true
			}
		}
		ok = false
		return false
	})
	return ok
}

func (c *ovConv) features(fs *descriptorpb.FeatureSet, field bool) (pres, enumt, renc, utf8, menc string) {
	pres, enumt, renc, utf8, menc = "-", "-", "-", "-", "-"
	if fs == nil {
		return
	}
	if !ovOnlyFields(fs, "field_presence", "enum_type", "repeated_field_encoding", "utf8_validation", "message_encoding") {
		c.fail("other-feature")
	}
	if fs.FieldPresence != nil {
		pres = map[descriptorpb.FeatureSet_FieldPresence]string{descriptorpb.FeatureSet_EXPLICIT: "e",
			descriptorpb.FeatureSet_IMPLICIT: "i", descriptorpb.FeatureSet_LEGACY_REQUIRED: "l"}[fs.GetFieldPresence()]
	}
	if fs.EnumType != nil {
		enumt = map[descriptorpb.FeatureSet_EnumType]string{descriptorpb.FeatureSet_OPEN: "o", descriptorpb.FeatureSet_CLOSED: "c"}[fs.GetEnumType()]
	}
	if fs.RepeatedFieldEncoding != nil {
		renc = map[descriptorpb.FeatureSet_RepeatedFieldEncoding]string{descriptorpb.FeatureSet_PACKED: "p", descriptorpb.FeatureSet_EXPANDED: "x"}[fs.GetRepeatedFieldEncoding()]
	}
	if fs.Utf8Validation != nil {
		utf8 = map[descriptorpb.FeatureSet_Utf8Validation]string{descriptorpb.FeatureSet_VERIFY: "v", descriptorpb.FeatureSet_NONE: "n"}[fs.GetUtf8Validation()]
	}
	if fs.MessageEncoding != nil {
		menc = map[descriptorpb.FeatureSet_MessageEncoding]string{descriptorpb.FeatureSet_LENGTH_PREFIXED: "l", descriptorpb.FeatureSet_DELIMITED: "d"}[fs.GetMessageEncoding()]
	}
	if pres == "" || enumt == "" || renc == "" || utf8 == "" || menc == "" {
		c.fail("unknown-feature-value")
	}
	return
}

func (c *ovConv) fieldOpts(fd *descriptorpb.FieldDescriptorProto) ovOpts {
	o := ovNoOpts()
	o.Def = fd.DefaultValue != nil
	fo := fd.Options
	if fo == nil {
		return o
	}
	if !ovOnlyFields(fo, "packed", "lazy", "unverified_lazy", "jstype", "ctype", "features") {
		c.fail("other-field-option")
	}
	o.Packed, o.Lazy, o.ULazy = ovTriOf(fo.Packed), ovTriOf(fo.Lazy), ovTriOf(fo.UnverifiedLazy)
	if fo.Jstype != nil {
		o.Jstype = map[descriptorpb.FieldOptions_JSType]string{descriptorpb.FieldOptions_JS_NORMAL: "n",
			descriptorpb.FieldOptions_JS_STRING: "s", descriptorpb.FieldOptions_JS_NUMBER: "m"}[fo.GetJstype()]
	}
	if fo.Ctype != nil {
		o.Ctype = map[descriptorpb.FieldOptions_CType]string{descriptorpb.FieldOptions_STRING: "s",
			descriptorpb.FieldOptions_CORD: "c", descriptorpb.FieldOptions_STRING_PIECE: "p"}[fo.GetCtype()]
	}
	var et string
	o.Pres, et, o.REnc, o.Utf8, o.MEnc = c.features(fo.Features, true)
	if et != "-" {
		c.fail("enum-type-on-field")
	}
	return o
}

// fieldType transcribes the type of a field; nested = the nested types of the containing message
// (for map entries and groups), nil for extensions at file level (groups live in the file).
func (c *ovConv) fieldType(fd *descriptorpb.FieldDescriptorProto, scope string, nested []*descriptorpb.DescriptorProto, fileMsgs []*descriptorpb.DescriptorProto) ovType {
	if s, ok := ovScalarOfType[fd.GetType()]; ok {
		return ovSc(s)
	}
	tn := strings.TrimPrefix(fd.GetTypeName(), ".")
	switch fd.GetType() {
	case descriptorpb.FieldDescriptorProto_TYPE_ENUM:
		if r, ok := c.enumIdx[tn]; ok {
			return ovEn(r[0], r[1])
		}
		c.fail("enum-ref")
	case descriptorpb.FieldDescriptorProto_TYPE_GROUP:
		pool := nested
		if nested == nil {
			pool = fileMsgs
		}
		for _, n := range pool {
			if ovQual(scope, n.GetName()) == tn {
				// the engine's groups have an empty body: plain scalar fields without options inside a
				// group cannot touch any rule and are dropped
				if len(n.NestedType)+len(n.EnumType)+len(n.Extension)+len(n.ExtensionRange)+len(n.OneofDecl) > 0 || n.Options != nil {
					c.fail("group-with-body")
				}
				for _, gf := range n.Field {
					if _, scalar := ovScalarOfType[gf.GetType()]; !scalar || gf.Options != nil || gf.DefaultValue != nil {
						c.fail("group-with-body")
					}
				}
				return ovType{K: "g"}
			}
		}
		c.fail("group-ref")
	case descriptorpb.FieldDescriptorProto_TYPE_MESSAGE:
		if r, ok := c.msgIdx[tn]; ok {
			return ovMs(r[0], r[1])
		}
		for _, n := range nested {
			if ovQual(scope, n.GetName()) == tn && n.GetOptions().GetMapEntry() && len(n.Field) == 2 {
				k := c.fieldType(n.Field[0], "", nil, nil)
				v := c.fieldType(n.Field[1], "", nil, nil)
				if k.K != "s" || v.K == "g" || v.K == "map" {
					c.fail("map-shape")
					return ovSc("int32")
				}
				return ovMap(k.S, v)
			}
		}
		c.fail("message-ref")
	default:
		c.fail("field-type")
	}
	return ovSc("int32")
}

func (c *ovConv) label(fd *descriptorpb.FieldDescriptorProto) string {
	if c.noLabel[fd] {
		return "-"
	}
	switch fd.GetLabel() {
	case descriptorpb.FieldDescriptorProto_LABEL_REQUIRED:
		return "q"
	case descriptorpb.FieldDescriptorProto_LABEL_REPEATED:
		return "r"
	}
	return "o"
}

func (c *ovConv) mapName(s *string) *string {
	if s == nil {
		return nil
	}
	v := *s
	dot := strings.HasPrefix(v, ".")
	if n, ok := c.rename[strings.TrimPrefix(v, ".")]; ok {
		if dot {
			n = "." + n
		}
		return &n
	}
	for _, ch := range v {
		if ch <= ' ' || ch > '~' || ch == '"' || ch == '\\' || ch == '\'' {
			c.fail("declared-string-charset")
		}
	}
	return &v
}

// ovConvert transcribes the linked + interpreted descriptors (in dependency order).
func (c *ovConv) convert(fds []*descriptorpb.FileDescriptorProto) *ovSet {
	c.msgIdx, c.enumIdx, c.rename = map[string][2]int{}, map[string][2]int{}, map[string]string{}
	pathIdx := map[string]int{}
	for i, fd := range fds {
		pathIdx[fd.GetName()] = i
		nplain := 0
		for _, m := range fd.MessageType {
			// the messages of file-level group extensions are not counted as messages
			isGroup := false
			for _, x := range fd.Extension {
				if x.GetType() == descriptorpb.FieldDescriptorProto_TYPE_GROUP && strings.TrimPrefix(x.GetTypeName(), ".") == ovQual(fd.GetPackage(), m.GetName()) {
					isGroup = true
				}
			}
			if isGroup {
				continue
			}
			full := ovQual(fd.GetPackage(), m.GetName())
			c.msgIdx[full] = [2]int{i, nplain}
			c.rename[full] = fmt.Sprintf("p%d.M%d", i, nplain)
			nplain++
		}
		for k, e := range fd.EnumType {
			full := ovQual(fd.GetPackage(), e.GetName())
			c.enumIdx[full] = [2]int{i, k}
			c.rename[full] = fmt.Sprintf("p%d.E%d", i, k)
		}
		for n, x := range fd.Extension {
			c.rename[ovQual(fd.GetPackage(), x.GetName())] = fmt.Sprintf("p%d.x%d", i, n)
			if x.GetType() == descriptorpb.FieldDescriptorProto_TYPE_GROUP {
				c.rename[strings.TrimPrefix(x.GetTypeName(), ".")] = fmt.Sprintf("p%d.X%d", i, n)
			}
		}
	}
	s := &ovSet{}
	for i, fd := range fds {
		syn := ""
		switch {
		case fd.GetSyntax() == "" || fd.GetSyntax() == "proto2":
			syn = "2"
		case fd.GetSyntax() == "proto3":
			syn = "3"
		case fd.GetSyntax() == "editions" && fd.GetEdition() == descriptorpb.Edition_EDITION_2023:
			syn = "e"
		default:
			c.fail("syntax")
		}
		f := ovNewFile(syn)
		if len(fd.PublicDependency)+len(fd.WeakDependency)+len(fd.Service) > 0 {
			c.fail("public-weak-service")
		}
		for _, d := range fd.Dependency {
			k, ok := pathIdx[d]
			if !ok || k >= i {
				c.fail("import")
			}
			f.Imports = append(f.Imports, k)
		}
		if fo := fd.Options; fo != nil {
			if len(fo.UninterpretedOption) > 0 || len(fo.ProtoReflect().GetUnknown()) > 0 {
				c.fail("custom-file-option")
			}
			if fo.OptimizeFor != nil {
				f.OptFor = map[descriptorpb.FileOptions_OptimizeMode]string{descriptorpb.FileOptions_SPEED: "s",
					descriptorpb.FileOptions_CODE_SIZE: "c", descriptorpb.FileOptions_LITE_RUNTIME: "l"}[fo.GetOptimizeFor()]
			}
			f.JUtf8 = ovTriOf(fo.JavaStringCheckUtf8)
			// file-level repeated_field_encoding / utf8_validation do not enter any rule
			f.Pres, f.EnumT, _, _, f.MEnc = c.features(fo.Features, false)
		}
		for _, e := range fd.EnumType {
			et := "-"
			if e.Options != nil {
				if !ovOnlyFields(e.Options, "features") {
					c.fail("enum-option")
				}
				var p, r, u, m string
				p, et, r, u, m = c.features(e.Options.Features, false)
				if p != "-" || r != "-" || u != "-" || m != "-" {
					c.fail("enum-feature")
				}
			}
			if len(e.Value) == 0 || e.Value[0].GetNumber() != 0 {
				c.fail("enum-first-value")
			}
			f.Enums = append(f.Enums, et)
		}
		for _, m := range fd.MessageType {
			full := ovQual(fd.GetPackage(), m.GetName())
			if _, ok := c.msgIdx[full]; !ok {
				continue // group message of an extension
			}
			om := &ovMsg{MsgSet: "-"}
			if m.Options != nil {
				if !ovOnlyFields(m.Options, "message_set_wire_format") {
					c.fail("message-option")
				}
				om.MsgSet = ovTriOf(m.Options.MessageSetWireFormat)
			}
			if len(m.EnumType)+len(m.Extension)+len(m.ReservedRange)+len(m.ReservedName) > 0 {
				c.fail("nested-element")
			}
			used := map[string]bool{}
			// the engine numbers fields 1..n: the extension ranges must lie above
			for _, er := range m.ExtensionRange {
				if er.GetStart() <= int32(len(m.Field)) {
					c.fail("field-numbers")
				}
			}
			for l, fl := range m.Field {
				_ = l
				of := ovField{Label: c.label(fl), Oneof: -1}
				of.Ty = c.fieldType(fl, full, m.NestedType, nil)
				if of.Ty.K == "g" || of.Ty.K == "map" {
					used[strings.TrimPrefix(fl.GetTypeName(), ".")] = true
				}
				if of.Ty.K == "map" {
					of.Label = "-"
				}
				if fl.OneofIndex != nil && !fl.GetProto3Optional() {
					of.Oneof = int(fl.GetOneofIndex())
					of.Label = "-"
				}
				of.O = c.fieldOpts(fl)
				om.Fields = append(om.Fields, of)
			}
			for _, n := range m.NestedType {
				if !used[ovQual(full, n.GetName())] {
					c.fail("nested-message")
				}
			}
			for _, oo := range m.OneofDecl {
				if oo.Options != nil {
					c.fail("oneof-option")
				}
			}
			var lastNode any
			var st *ovStmt
			for _, er := range m.ExtensionRange {
				node := c.stmtNode[er]
				if st == nil || node == nil || node != lastNode {
					st = &ovStmt{Verif: "-"}
					om.Stmts = append(om.Stmts, st)
					lastNode = node
					if eo := er.Options; eo != nil {
						if !ovOnlyFields(eo, "verification", "declaration") {
							c.fail("range-option")
						}
						if eo.Verification != nil {
							st.Verif = map[descriptorpb.ExtensionRangeOptions_VerificationState]string{
								descriptorpb.ExtensionRangeOptions_DECLARATION: "d", descriptorpb.ExtensionRangeOptions_UNVERIFIED: "u"}[eo.GetVerification()]
						}
						for _, d := range eo.Declaration {
							if len(d.ProtoReflect().GetUnknown()) > 0 {
								c.fail("declaration-unknown")
							}
							od := ovDecl{Rsvd: ovTriOf(d.Reserved), Rep: ovTriOf(d.Repeated), Name: c.mapName(d.FullName), Type: c.mapName(d.Type)}
							if d.Number != nil {
								od.Num = ovI64(int64(d.GetNumber()))
							}
							st.Decls = append(st.Decls, od)
						}
					}
				}
				st.Spans = append(st.Spans, ovSpan{int64(er.GetStart()), int64(er.GetEnd()) - 1})
			}
			f.Msgs = append(f.Msgs, om)
		}
		for _, x := range fd.Extension {
			r, ok := c.msgIdx[strings.TrimPrefix(x.GetExtendee(), ".")]
			if !ok {
				c.fail("extendee")
			}
			ox := ovExt{EFile: r[0], EMsg: r[1], Num: int64(x.GetNumber()), Label: c.label(x)}
			ox.Ty = c.fieldType(x, fd.GetPackage(), nil, fd.MessageType)
			ox.O = c.fieldOpts(x)
			f.Exts = append(f.Exts, ox)
		}
		s.Files = append(s.Files, f)
	}
	return s
}

// ovLinkCase parses, links and interprets the options of the files of one table case (dependency
// order); "" + descriptors on success.
func ovLinkCase(files map[string]string, c *ovConv) ([]*descriptorpb.FileDescriptorProto, string) {
	// dependency order by repeated scanning (imports are read from the parsed descriptors)
	parsed := map[string]parser.Result{}
	lenient := reporter.NewHandler(reporter.NewReporter(func(reporter.ErrorWithPos) error { return nil }, nil))
	for name, src := range files {
		astf, err := parser.Parse(name, strings.NewReader(src), reporter.NewHandler(nil))
		if err != nil {
			return nil, "syntax-error"
		}
		res, err := parser.ResultFromAST(astf, false, lenient)
		if err != nil || res == nil {
			return nil, "descriptor-error"
		}
		parsed[name] = res
	}
	c.noLabel = map[*descriptorpb.FieldDescriptorProto]bool{}
	c.stmtNode = map[*descriptorpb.DescriptorProto_ExtensionRange]any{}
	for _, res := range parsed {
		fd := res.FileDescriptorProto()
		var walk func(ms []*descriptorpb.DescriptorProto)
		mark := func(fs []*descriptorpb.FieldDescriptorProto) {
			for _, f := range fs {
				// the label keyword is absent iff the AST node has no label node
				lab := res.FieldNode(f).FieldLabel()
				if lab == nil || (reflect.ValueOf(lab).Kind() == reflect.Ptr && reflect.ValueOf(lab).IsNil()) {
					c.noLabel[f] = true
				}
			}
		}
		walk = func(ms []*descriptorpb.DescriptorProto) {
			for _, m := range ms {
				mark(m.Field)
				mark(m.Extension)
				for _, er := range m.ExtensionRange {
					c.stmtNode[er] = res.ExtensionsNode(er)
				}
				walk(m.NestedType)
			}
		}
		walk(fd.MessageType)
		mark(fd.Extension)
	}
	var order []string
	done := map[string]bool{}
	for len(order) < len(parsed) {
		progressed := false
		var names []string
		for n := range parsed {
			names = append(names, n)
		}
		sort.Strings(names)
		for _, n := range names {
			if done[n] {
				continue
			}
			ready := true
			for _, d := range parsed[n].FileDescriptorProto().Dependency {
				if _, ok := parsed[d]; !ok {
					return nil, "external-import"
				}
				if !done[d] {
					ready = false
				}
			}
			if ready {
				done[n] = true
				order = append(order, n)
				progressed = true
			}
		}
		if !progressed {
			return nil, "import-cycle"
		}
	}
	var linked linker.Files
	var out []*descriptorpb.FileDescriptorProto
	syms := &linker.Symbols{}
	for _, n := range order {
		h := reporter.NewHandler(nil)
		var deps linker.Files
		for _, d := range parsed[n].FileDescriptorProto().Dependency {
			deps = append(deps, linked.FindFileByPath(d))
		}
		lr, err := linker.Link(parsed[n], deps, syms, h)
		if err != nil {
			return nil, "link-error"
		}
		if _, err := options.InterpretOptions(lr, h); err != nil {
			return nil, "option-error"
		}
		linked = append(linked, lr)
		out = append(out, lr.FileDescriptorProto())
	}
	return out, ""
}

// reasons why table cases were not used (last call of ovAnchorOps)
var ovAnchorSkipped = map[string]int{}

// ovAnchorOps: the calibration ops plus, as `#`-free statistics, how many table cases were used.
func ovAnchorOps() []string {
	cases := ovTableCases(filepath.Join(ovRepoDir(), "linker", "linker_test.go"))
	var ops []string
	for _, tc := range cases {
		goOK := tc.expectedErr == ""
		if !goOK {
			// only cases whose expected text belongs to the rules of this engine
			msg := tc.expectedErr
			if i := strings.Index(msg, " && "); i >= 0 {
				msg = msg[:i]
			}
			if i := strings.Index(msg, " || "); i >= 0 {
				msg = msg[:i]
			}
			parts := strings.SplitN(msg, ": ", 2)
			if len(parts) == 2 {
				msg = parts[1]
			}
			if cl, _ := ovClassify(msg); cl == "" {
				continue
			}
		}
		c := &ovConv{}
		fds, why := ovLinkCase(tc.files, c)
		if why != "" {
			ovAnchorSkipped[why]++
			if os.Getenv("OV_ANCHOR_DEBUG") != "" {
				fmt.Fprintf(os.Stderr, "anchor skip %s: %s\n", tc.name, why)
			}
			continue
		}
		set := c.convert(fds)
		if c.bad == "" {
			// the same extension name declared in two files: the order in which concurrently compiled
			// files reach the shared symbol table is outside the model
			seen := map[string]int{}
			for i, f := range set.Files {
				for _, m := range f.Msgs {
					for _, st := range m.Stmts {
						for _, d := range st.Decls {
							if d.Name == nil {
								continue
							}
							n := strings.TrimPrefix(*d.Name, ".")
							if j, ok := seen[n]; ok && j != i {
								c.fail("declared-name-in-two-files")
							}
							seen[n] = i
						}
					}
				}
			}
		}
		if c.bad != "" {
			ovAnchorSkipped[c.bad]++
			if os.Getenv("OV_ANCHOR_DEBUG") != "" {
				fmt.Fprintf(os.Stderr, "anchor skip %s: %s\n", tc.name, c.bad)
			}
			continue
		}
		protocOK := goOK != tc.diff
		w := func(b bool) string {
			if b {
				return "ok"
			}
			return "err"
		}
		body := set.op()
		ops = append(ops, "an "+tc.name+" "+w(goOK)+" "+w(protocOK)+" "+body)
	}
	return ops
}

func ovExecAnchor(op string) string {
	w := strings.SplitN(op, " ", 5)
	if len(w) != 5 || !strings.HasPrefix(w[4], "fs") {
		return "bad-op"
	}
	s, ok := ovParse(w[4])
	if !ok {
		return "bad-op"
	}
	return ovRun(s)
}
