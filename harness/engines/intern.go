package engines

import (
	"fmt"
	"runtime"
	"sort"
	"strconv"
	"strings"
	"sync"
	"sync/atomic"
	"time"

	"github.com/bufbuild/protocompile/verifhooks"
)

// intern: internal/intern (char6 inline encoding, Table.Intern/Query/Value, also under
// concurrency) — C38. See lean/PCV/Engines/Intern.lean for the line protocol.
type internEngine struct {
	t *verifhooks.InternTable
	// hist: the state-changing sequential ops of the current case, so that a conc op can be
	// repeated on fresh copies of the same table state.
	hist     []string
	scratch  []byte
	histConc bool
}

// internRounds is how often a conc op is executed (round 1 on the case's table, the others
// on fresh tables brought to the same state). A correct table gives the same canonical
// answer every time; differing answers are reported as "nondet …".
const internRounds = 5

func init() {
	Register("intern", func() Engine { return &internEngine{t: verifhooks.NewInternTable()} })
}

func (e *internEngine) Name() string { return "intern" }
func (e *internEngine) Reset() {
	e.t = verifhooks.NewInternTable()
	e.hist, e.histConc = nil, false
}

// internHung is set once an operation did not come back: a goroutine is then spinning for
// ever inside the code under test, so every later intern/conc op of this process answers
// "hang-abort" at once instead of piling up more spinners.
var internHung atomic.Bool

// internDeadline runs f with a watchdog. The table operations have no legitimate way to
// block when run alone, so "hang" is an answer (a disagreement with the model), not an error.
func internDeadline(d time.Duration, f func() string) string {
	if internHung.Load() {
		return "hang-abort"
	}
	ch := make(chan string, 1)
	go func() {
		defer func() {
			if r := recover(); r != nil {
				ch <- "panic " + Canon(fmt.Sprint(r))
			}
		}()
		ch <- f()
	}()
	select {
	case a := <-ch:
		return a
	case <-time.After(d):
		internHung.Store(true)
		return "hang"
	}
}

// internCall runs Intern under recover; ok=false is a panic.
func internCall(t *verifhooks.InternTable, s string) (id int32, ok bool) {
	defer func() {
		if r := recover(); r != nil {
			id, ok = 0, false
		}
	}()
	return t.Intern(s), true
}

func valueCall(t *verifhooks.InternTable, id int32) (s string, ok bool) {
	defer func() {
		if r := recover(); r != nil {
			s, ok = "", false
		}
	}()
	// Value may alias a stack buffer; copy.
	return strings.Clone(t.Value(id)), true
}

func (e *internEngine) Exec(op string) string {
	w := strings.Fields(op)
	if len(w) == 0 {
		return "bad-op"
	}
	switch {
	case w[0] == "alphabet" && len(w) == 1:
		return Hex(verifhooks.InternChar6ToByte())
	case w[0] == "sext" && len(w) == 2:
		b, err := strconv.Atoi(w[1])
		if err != nil || b < 0 || b > 255 {
			return "bad-op"
		}
		return strconv.Itoa(int(verifhooks.InternByteToChar6()[b]))
	case w[0] == "enc" && len(w) == 2:
		id, ok := verifhooks.InternEncodeChar6(string(UnHex(w[1])))
		if !ok {
			return "fail"
		}
		return strconv.Itoa(int(id))
	case w[0] == "dec" && len(w) == 2:
		id, err := strconv.ParseInt(w[1], 10, 32)
		if err != nil {
			return "bad-op"
		}
		return Hex([]byte(verifhooks.InternDecodeChar6(int32(id))))
	case w[0] == "rt" && len(w) == 2:
		id, ok := verifhooks.InternEncodeChar6(string(UnHex(w[1])))
		if !ok {
			return "fail"
		}
		return Hex([]byte(verifhooks.InternDecodeChar6(id)))
	case w[0] == "intern" && len(w) == 2:
		t := e.t
		e.hist = append(e.hist, op)
		return internDeadline(5*time.Second, func() string {
			id, ok := internCall(t, string(UnHex(w[1])))
			if !ok {
				return "panic"
			}
			return strconv.Itoa(int(id))
		})
	case w[0] == "query" && len(w) == 2:
		id, ok := e.t.Query(string(UnHex(w[1])))
		return fmt.Sprintf("%d %v", id, ok)
	case w[0] == "internb" && len(w) == 2:
		// InternBytes on a scratch buffer that the caller reuses right after the call returns
		t := e.t
		e.hist = append(e.hist, "intern "+w[1])
		b := UnHex(w[1])
		if cap(e.scratch) < len(b)+1 {
			e.scratch = make([]byte, 0, 2*len(b)+64)
		}
		buf := append(e.scratch[:0], b...)
		return internDeadline(5*time.Second, func() string {
			var id int32
			ok := true
			func() {
				defer func() {
					if r := recover(); r != nil {
						ok = false
					}
				}()
				id = t.InternBytes(buf)
			}()
			for i := range buf {
				buf[i] = 'x' // the caller reuses its buffer
			}
			if !ok {
				return "panic"
			}
			return strconv.Itoa(int(id))
		})
	case w[0] == "queryb" && len(w) == 2:
		b := UnHex(w[1])
		buf := append(make([]byte, 0, len(b)+8), b...)
		id, ok := e.t.QueryBytes(buf)
		for i := range buf {
			buf[i] = 'y'
		}
		return fmt.Sprintf("%d %v", id, ok)
	case w[0] == "value" && len(w) == 2:
		id, err := strconv.ParseInt(w[1], 10, 32)
		if err != nil {
			return "bad-op"
		}
		s, ok := valueCall(e.t, int32(id))
		if !ok {
			return "panic"
		}
		return Hex([]byte(s))
	case w[0] == "full" && len(w) == 1:
		e.hist = append(e.hist, op)
		e.t.SetFull()
		return "ok"
	case w[0] == "conc" && len(w) == 3:
		t := e.t
		rounds := internRounds
		if e.histConc {
			rounds = 1 // the earlier conc left a schedule-dependent id assignment behind
		}
		e.histConc = true
		hist := append([]string{}, e.hist...)
		return internDeadline(30*time.Second, func() string {
			first := internConc(t, w[2])
			for k := 1; k < rounds; k++ {
				t2 := verifhooks.NewInternTable()
				for _, h := range hist {
					hw := strings.Fields(h)
					if hw[0] == "full" {
						t2.SetFull()
					} else {
						internCall(t2, string(UnHex(hw[1])))
					}
				}
				if again := internConc(t2, w[2]); again != first {
					return "nondet " + first + " | " + again
				}
			}
			return first
		})
	}
	return "bad-op"
}

type internRes struct {
	s  string
	id int32
	ok bool
}

// conc runs every program in its own goroutine against the shared table and returns
// the canonical (schedule independent) description of the outcome.
func internConc(t *verifhooks.InternTable, spec string) string {
	var progs [][]string
	for _, p := range strings.Split(spec, ";") {
		if p == "" {
			return "bad-op"
		}
		var prog []string
		for _, h := range strings.Split(p, ",") {
			prog = append(prog, string(UnHex(h)))
		}
		progs = append(progs, prog)
	}
	res := make([][]internRes, len(progs))
	vbad := make([]int, len(progs))
	start := make(chan struct{})
	var wg sync.WaitGroup
	for g := range progs {
		wg.Add(1)
		go func(g int) {
			defer wg.Done()
			<-start
			for i, s := range progs[g] {
				// Hand a private copy to Intern, as InternBytes callers would.
				id, ok := internCall(t, strings.Clone(s))
				res[g] = append(res[g], internRes{s, id, ok})
				if ok {
					if v, vok := valueCall(t, id); !vok || v != s {
						vbad[g]++
					}
				}
				if (i+g)%3 == 0 {
					runtime.Gosched()
				}
			}
		}(g)
	}
	close(start)
	wg.Wait()

	// canonical tokens
	rank := map[int32]int{}
	var ids []int
	post, v := 0, 0
	var sb strings.Builder
	sb.WriteString("r=")
	for g := range res {
		if g > 0 {
			sb.WriteByte(';')
		}
		v += vbad[g]
		for i, r := range res[g] {
			if i > 0 {
				sb.WriteByte(',')
			}
			switch {
			case !r.ok:
				sb.WriteByte('p')
			case r.id <= 0:
				fmt.Fprintf(&sb, "n%d", r.id)
			default:
				k, seen := rank[r.id]
				if !seen {
					k = len(rank)
					rank[r.id] = k
					ids = append(ids, int(r.id))
				}
				fmt.Fprintf(&sb, "t%d", k)
			}
		}
	}
	// after the join: Query / Intern / Value must all agree with what the goroutines saw
	for g := range res {
		for _, r := range res[g] {
			if !r.ok {
				continue
			}
			qid, qok := t.Query(r.s)
			iid, iok := internCall(t, r.s)
			val, vok := valueCall(t, r.id)
			if !(qok && qid == r.id && iok && iid == r.id && vok && val == r.s) {
				post++
			}
		}
	}
	sort.Ints(ids)
	fmt.Fprintf(&sb, " v=%d post=%d ids=", v, post)
	if len(ids) == 0 {
		sb.WriteByte('-')
	}
	for i, id := range ids {
		if i > 0 {
			sb.WriteByte(',')
		}
		sb.WriteString(strconv.Itoa(id))
	}
	return sb.String()
}

func (e *internEngine) Trivial(op, ans string) bool {
	return op == "full" || strings.HasPrefix(op, "sext ") || op == "alphabet"
}

func (e *internEngine) Class(op, ans string) string {
	w := strings.Fields(op)
	switch w[0] {
	case "enc", "rt":
		if ans == "fail" {
			return w[0] + ":reject"
		}
		return w[0] + ":inline"
	case "intern":
		switch {
		case ans == "panic":
			return "intern:panic"
		case strings.HasPrefix(ans, "-") || ans == "0":
			return "intern:inline"
		}
		return "intern:table"
	case "query":
		if strings.HasSuffix(ans, "true") {
			return "query:present"
		}
		return "query:absent"
	case "value":
		if ans == "panic" {
			return "value:panic"
		}
		return "value:ok"
	case "conc":
		if strings.Contains(strings.SplitN(ans, " ", 2)[0], "p") {
			return "conc:exhausted"
		}
		return "conc"
	}
	return w[0]
}

// ---------------------------------------------------------------- generator

func (e *internEngine) Gen(r *Rand, tier string) [][]string {
	thorough := tier == "thorough"
	var cases [][]string
	one := func(op string) { cases = append(cases, []string{op}) }

	// The alphabet is read from the code under test (not hard-coded here), so the
	// generator follows a changed alphabet while the model constant does not.
	alpha := verifhooks.InternChar6ToByte()
	if len(alpha) == 0 {
		alpha = []byte("0")
	}
	one("alphabet")
	for b := 0; b < 256; b++ {
		one(fmt.Sprintf("sext %d", b))
	}

	// --- function level, exhaustive small domains -------------------------------
	// every string of length <= 2 over alphabet + neighbouring / hostile bytes
	outsiders := []byte{'/', ':', '@', '[', '`', '{', '-', ' ', '^', '~', 0, 0x7f, 0x80, 0xff}
	sigma := append(append([]byte{}, alpha...), outsiders...)
	one("enc -")
	one("rt -")
	for _, a := range sigma {
		one("enc " + Hex([]byte{a}))
		one("rt " + Hex([]byte{a}))
		for _, b := range sigma {
			one("enc " + Hex([]byte{a, b}))
			one("rt " + Hex([]byte{a, b}))
		}
	}
	// lengths 3..6 over the boundary symbols of every alphabet segment
	edge := []byte{'0', '9', 'a', 'z', 'A', 'Z', '_', '.', '-'}
	var rec func(p []byte, maxLen int)
	rec = func(p []byte, maxLen int) {
		if len(p) >= 3 {
			one("rt " + Hex(p))
			if len(p) >= 5 {
				one("enc " + Hex(p))
			}
		}
		if len(p) == maxLen {
			return
		}
		for _, c := range edge {
			rec(append(append([]byte{}, p...), c), maxLen)
		}
	}
	// the full three-symbol cube of the real alphabet
	for _, a := range alpha {
		for _, b := range alpha {
			for _, c := range alpha {
				one("rt " + Hex([]byte{a, b, c}))
			}
		}
	}
	if thorough {
		rec(nil, 6)
	} else {
		rec(nil, 4)
		small := []byte{'0', 'Z', '_', '.'}
		var rec2 func(p []byte)
		rec2 = func(p []byte) {
			if len(p) >= 5 {
				one("rt " + Hex(p))
				if len(p) == 6 {
					return
				}
			}
			for _, c := range small {
				rec2(append(append([]byte{}, p...), c))
			}
		}
		rec2(nil)
	}
	// random strings of length 1..7, mostly alphabet symbols
	randStr := func(maxLen int, pOut int) []byte {
		l := 1 + r.Intn(maxLen)
		b := make([]byte, l)
		for i := range b {
			switch {
			case r.Chance(pOut, 100):
				b[i] = Pick(r, outsiders)
			case r.Chance(1, 6):
				b[i] = '.'
			default:
				b[i] = Pick(r, alpha)
			}
		}
		return b
	}
	n := 20000
	if thorough {
		n = 400000
	}
	for i := 0; i < n; i++ {
		s := randStr(7, 3)
		one("rt " + Hex(s))
		if i%3 == 0 {
			one("enc " + Hex(s))
		}
	}
	// decode of arbitrary ids (Value is defined on every id <= 0)
	decs := []int64{0, -1, -2, -63, -64, -65, 1, 2, 63, 64, 1<<31 - 1, -(1 << 31), -(1 << 31) + 1, -(1 << 30), -(1 << 30) - 1, -(1 << 30) + 1}
	for k := 1; k < 31; k++ {
		decs = append(decs, -(1 << k), -(1<<k)-1, -(1<<k)+1, 1<<k, 1<<k-1)
	}
	for _, d := range decs {
		if d >= -(1<<31) && d < 1<<31 {
			one(fmt.Sprintf("dec %d", d))
		}
	}
	n = 1500
	if thorough {
		n = 100000
	}
	for i := 0; i < n; i++ {
		one(fmt.Sprintf("dec %d", int32(r.U64())))
	}
	// injectivity: many encodings inside one case (the oracle compares every pair)
	n = 12
	if thorough {
		n = 200
	}
	for i := 0; i < n; i++ {
		var c []string
		seeds := [][]byte{nil, []byte("a"), []byte("a."), []byte("a.."), []byte(".a"), []byte("0"), []byte("00"), []byte("000"), []byte("0000"), []byte("00000"), []byte("_"), []byte("._"), []byte("a.b"), []byte("a..b"), []byte("....a")}
		for _, s := range seeds {
			c = append(c, "enc "+Hex(s))
		}
		for j := 0; j < 150; j++ {
			s := randStr(5, 1)
			if r.Chance(1, 3) && len(c) > 0 {
				// near miss of an earlier string: change / drop / add one symbol
				prev := UnHex(strings.Fields(c[r.Intn(len(c))])[1])
				s = append([]byte{}, prev...)
				switch r.Intn(3) {
				case 0:
					if len(s) > 0 {
						s[r.Intn(len(s))] = Pick(r, alpha)
					}
				case 1:
					if len(s) > 0 {
						s = s[:len(s)-1]
					}
				default:
					s = append(s, Pick(r, alpha))
				}
			}
			c = append(c, "enc "+Hex(s))
		}
		cases = append(cases, c)
	}

	// --- the table, sequentially --------------------------------------------------
	// exhaustive short histories over a tiny op alphabet
	tiny := []string{
		"intern " + Hex([]byte("foo.")), "intern " + Hex([]byte("hello!")), "intern " + Hex([]byte("ab")),
		"query " + Hex([]byte("foo.")), "query " + Hex([]byte("hello!")), "query " + Hex([]byte("ab")),
		"value 1", "value 2", "full",
	}
	depth := 3
	if thorough {
		depth = 5
	}
	var hist func(p []string)
	hist = func(p []string) {
		if len(p) > 0 {
			cases = append(cases, append([]string{}, p...))
		}
		if len(p) == depth {
			return
		}
		for _, o := range tiny {
			hist(append(p, o))
		}
	}
	hist(nil)
	// random histories
	pool := func() [][]byte {
		ps := [][]byte{nil, []byte("a"), []byte("abc"), []byte("abcde"), []byte("abcdef"), []byte("a.b"), []byte("."), []byte("a."),
			[]byte("....."), []byte("foo."), []byte("foo.a"), []byte("very long"), []byte(" "), []byte("?"), []byte("a_b_c"),
			[]byte("google.protobuf.FileDescriptorProto"), {0}, {0xff, 0xfe}, []byte("ABCDE"), []byte("ABCDE.")}
		k := 2 + r.Intn(10)
		for i := 0; i < k; i++ {
			ps = append(ps, randStr(8, 10))
		}
		internShuffle(r, ps)
		return ps[:3+r.Intn(len(ps)-3)]
	}
	n = 1500
	if thorough {
		n = 30000
	}
	for i := 0; i < n; i++ {
		ps := pool()
		l := 5 + r.Intn(50)
		var c []string
		tableIDs := 0
		full := false
		for j := 0; j < l; j++ {
			s := Pick(r, ps)
			switch k := r.Intn(20); {
			case k < 9:
				if r.Chance(1, 3) {
					c = append(c, "internb "+Hex(s))
				} else {
					c = append(c, "intern "+Hex(s))
				}
				tableIDs++
			case k < 14:
				c = append(c, "query "+Hex(s))
			case k < 16:
				c = append(c, fmt.Sprintf("value %d", r.Intn(tableIDs+3)))
			case k < 18:
				if id, ok := verifhooks.InternEncodeChar6(string(s)); ok {
					c = append(c, fmt.Sprintf("value %d", id))
				} else {
					c = append(c, fmt.Sprintf("value %d", int32(r.U64())|-(1<<31)))
				}
			case k == 18 && !full && r.Chance(1, 4):
				c = append(c, "full")
				full = true
			default:
				c = append(c, "query "+Hex(randStr(6, 5)))
			}
		}
		cases = append(cases, c)
	}

	// --- the table, concurrently ---------------------------------------------------
	n = 2000
	if thorough {
		n = 25000
	}
	gsChoices := []int{2, 2, 3, 4, 4, 8, 16}
	for i := 0; i < n; i++ {
		ps := pool()
		// make sure there is contention on fresh non-inline strings
		for k := 0; k < 1+r.Intn(4); k++ {
			ps = append(ps, append(randStr(6, 0), '.'))
		}
		var c []string
		for k := r.Intn(4); k > 0; k-- {
			c = append(c, "intern "+Hex(Pick(r, ps)))
		}
		if r.Chance(1, 25) {
			c = append(c, "full")
		}
		g := Pick(r, gsChoices)
		var progs []string
		same := r.Chance(1, 3) // everybody interns the same sequence
		var first []string
		for k := 0; k < g; k++ {
			l := 1 + r.Intn(8)
			var p []string
			for j := 0; j < l; j++ {
				p = append(p, Hex(Pick(r, ps)))
			}
			if same {
				if first == nil {
					first = p
				}
				p = first
			}
			progs = append(progs, strings.Join(p, ","))
		}
		c = append(c, fmt.Sprintf("conc %d %s", r.Intn(1<<30), strings.Join(progs, ";")))
		cases = append(cases, c)
	}
	return cases
}

func internShuffle(r *Rand, xs [][]byte) {
	for i := len(xs) - 1; i > 0; i-- {
		j := r.Intn(i + 1)
		xs[i], xs[j] = xs[j], xs[i]
	}
}
