package engines

// Generator of the optvalidate engine: exhaustive small families per rule (every field kind x label
// x syntax x option value; pairs of option values so that the ORDER of the checks is exercised;
// extensions x extendee shapes; declarations x extensions), the protoc-anchored table cases of
// TestLinkerValidation (optvalidate_anchor.go), and random larger file sets.

import (
	"fmt"
	"strconv"
)

// ---------------------------------------------------------------- building blocks

func ovSc(s string) ovType      { return ovType{K: "s", S: s} }
func ovEn(f, i int) ovType      { return ovType{K: "e", F: f, I: i} }
func ovMs(f, i int) ovType      { return ovType{K: "m", F: f, I: i} }
func ovMap(k string, v ovType) ovType {
	return ovType{K: "map", S: k, V: &v}
}

func ovNewFile(syn string) *ovFile {
	return &ovFile{Syn: syn, OptFor: "-", JUtf8: "-", Pres: "-", EnumT: "-", MEnc: "-"}
}

// one option setting: which option and which value
type ovSetting struct {
	opt, val string
}

var ovSettings = []ovSetting{
	{"def", "d"},
	{"packed", "t"}, {"packed", "f"},
	{"lazy", "t"}, {"lazy", "f"},
	{"ulazy", "t"}, {"ulazy", "f"},
	{"jstype", "n"}, {"jstype", "s"}, {"jstype", "m"},
	{"ctype", "s"}, {"ctype", "c"}, {"ctype", "p"},
	{"pres", "e"}, {"pres", "i"}, {"pres", "l"},
	{"renc", "p"}, {"renc", "x"},
	{"utf8", "v"}, {"utf8", "n"},
	{"menc", "l"}, {"menc", "d"},
}

func (o ovOpts) with(s ovSetting) ovOpts {
	switch s.opt {
	case "def":
		o.Def = true
	case "packed":
		o.Packed = s.val
	case "lazy":
		o.Lazy = s.val
	case "ulazy":
		o.ULazy = s.val
	case "jstype":
		o.Jstype = s.val
	case "ctype":
		o.Ctype = s.val
	case "pres":
		o.Pres = s.val
	case "renc":
		o.REnc = s.val
	case "utf8":
		o.Utf8 = s.val
	case "menc":
		o.MEnc = s.val
	}
	return o
}

func ovIsFeature(s ovSetting) bool {
	return s.opt == "pres" || s.opt == "renc" || s.opt == "utf8" || s.opt == "menc"
}

// settings that an EARLIER phase rejects for this syntax / label / type (the model knows them as
// `pre`; the families keep a few of them and drop the bulk)
func ovSettingIsPre(syn, label string, t ovType, s ovSetting) bool {
	switch {
	case s.opt == "packed" && syn == "e":
		return true
	case ovIsFeature(s) && syn != "e":
		return true
	case s.opt == "def" && (syn == "3" || label == "r" || t.K == "m" || t.K == "g" || t.K == "map"):
		return true
	}
	return false
}

// labels the grammar accepts for an ordinary (non-oneof, non-map) field
func ovLabels(syn string) []string {
	switch syn {
	case "2":
		return []string{"o", "q", "r"}
	case "3":
		return []string{"-", "o", "r"}
	}
	return []string{"-", "r"}
}

func ovExtLabels(syn string) []string {
	if syn == "2" {
		return []string{"o", "r"}
	}
	return []string{"-", "r"}
}

// the field types of the one-field families. File 0 always declares message M0 (the container),
// M1 (a plain message) and the enums E0 (default), E1 (enum_type CLOSED in editions), E2 (OPEN).
func ovFieldTypes(syn string, all bool) []ovType {
	var ts []ovType
	if all {
		for _, s := range ovScalars {
			ts = append(ts, ovSc(s))
		}
	} else {
		for _, s := range []string{"int32", "int64", "sfixed64", "bool", "double", "string", "bytes"} {
			ts = append(ts, ovSc(s))
		}
	}
	ts = append(ts, ovEn(0, 0), ovMs(0, 1))
	if syn == "e" {
		ts = append(ts, ovEn(0, 1), ovEn(0, 2))
	}
	if syn == "2" {
		ts = append(ts, ovType{K: "g"})
	}
	ts = append(ts, ovMap("string", ovSc("string")), ovMap("int32", ovSc("bytes")), ovMap("int32", ovSc("string")),
		ovMap("string", ovSc("int64")), ovMap("int32", ovEn(0, 0)), ovMap("string", ovMs(0, 1)))
	if syn == "e" {
		ts = append(ts, ovMap("int32", ovEn(0, 1)))
	}
	return ts
}

func ovBaseFile(syn string) *ovFile {
	f := ovNewFile(syn)
	f.Msgs = []*ovMsg{{MsgSet: "-"}, {MsgSet: "-"}}
	f.Enums = []string{"-"}
	if syn == "e" {
		f.Enums = []string{"-", "c", "o"}
	}
	return f
}

type ovOut struct {
	ops  []string
	seen map[string]bool
}

func (o *ovOut) add(note string, s *ovSet) {
	s.Note = note
	op := s.op()
	if o.seen == nil {
		o.seen = map[string]bool{}
	}
	key := op[len("fs Q ")+len(note):]
	if o.seen[key] {
		return
	}
	o.seen[key] = true
	o.ops = append(o.ops, op)
}

// ---------------------------------------------------------------- family 1: one field, 0..2 options

type ovFileVar struct{ pres, menc, enumt string }

func ovFileVars(syn string, wide bool) []ovFileVar {
	if syn != "e" {
		return []ovFileVar{{"-", "-", "-"}}
	}
	v := []ovFileVar{{"-", "-", "-"}, {"i", "-", "-"}, {"-", "d", "-"}, {"-", "-", "c"}}
	if wide {
		v = append(v, ovFileVar{"i", "d", "c"}, ovFileVar{"e", "l", "o"})
	}
	return v
}

func ovOneFieldFamily(out *ovOut, tier string) {
	thorough := tier == "thorough"
	for _, syn := range []string{"2", "3", "e"} {
		for _, fv := range ovFileVars(syn, thorough) {
			for _, t := range ovFieldTypes(syn, true) {
				// placements: ordinary field with each label; oneof member; (maps: no label)
				type place struct {
					label string
					oneof int
				}
				var places []place
				if t.K == "map" {
					places = []place{{"-", -1}}
				} else {
					for _, l := range ovLabels(syn) {
						places = append(places, place{l, -1})
					}
					places = append(places, place{"-", 0})
				}
				for _, pl := range places {
					mk := func(o ovOpts) *ovSet {
						f := ovBaseFile(syn)
						f.Pres, f.MEnc, f.EnumT = fv.pres, fv.menc, fv.enumt
						f.Msgs[0].Fields = []ovField{{Label: pl.label, Ty: t, Oneof: pl.oneof, O: o}}
						return &ovSet{Files: []*ovFile{f}}
					}
					out.add("f0", mk(ovNoOpts()))
					for _, s := range ovSettings {
						pre := ovSettingIsPre(syn, pl.label, t, s)
						if pre && fv != (ovFileVar{"-", "-", "-"}) {
							continue
						}
						out.add("f1:"+s.opt, mk(ovNoOpts().with(s)))
					}
				}
			}
		}
	}
}

func ovTwoOptionFamily(out *ovOut, tier string) {
	thorough := tier == "thorough"
	for _, syn := range []string{"2", "3", "e"} {
		types := ovFieldTypes(syn, false)
		for ti, t := range types {
			type place struct {
				label string
				oneof int
			}
			var places []place
			if t.K == "map" {
				places = []place{{"-", -1}}
			} else {
				for _, l := range ovLabels(syn) {
					places = append(places, place{l, -1})
				}
				places = append(places, place{"-", 0})
			}
			for pi, pl := range places {
				for i, a := range ovSettings {
					for j, b := range ovSettings {
						if j <= i || a.opt == b.opt {
							continue
						}
						if ovSettingIsPre(syn, pl.label, t, a) || ovSettingIsPre(syn, pl.label, t, b) {
							continue
						}
						// quick: a deterministic third of the pairs per (type, placement)
						if !thorough && (i+j+ti+pi)%3 != 0 {
							continue
						}
						f := ovBaseFile(syn)
						f.Msgs[0].Fields = []ovField{{Label: pl.label, Ty: t, Oneof: pl.oneof, O: ovNoOpts().with(a).with(b)}}
						out.add("f2:"+a.opt+"+"+b.opt, &ovSet{Files: []*ovFile{f}})
					}
				}
			}
		}
	}
}

// ---------------------------------------------------------------- family 2: files, imports, LITE

func ovFileFamily(out *ovOut) {
	optfors := []string{"-", "s", "c", "l"}
	// two files, the second imports the first (or not)
	for _, a := range optfors {
		for _, b := range optfors {
			for _, imp := range []bool{true, false} {
				for _, syn := range []string{"2", "3", "e"} {
					f0 := ovNewFile("2")
					f0.OptFor = a
					f1 := ovNewFile(syn)
					f1.OptFor = b
					if imp {
						f1.Imports = []int{0}
					}
					out.add("lite2", &ovSet{Files: []*ovFile{f0, f1}})
				}
			}
		}
	}
	// three files: f2 imports any subset of {f0,f1}, f1 may import f0
	for _, a := range []string{"-", "l"} {
		for _, b := range []string{"-", "l"} {
			for _, c := range []string{"-", "s", "l"} {
				for mask := 0; mask < 8; mask++ {
					f0, f1, f2 := ovNewFile("2"), ovNewFile("3"), ovNewFile("e")
					f0.OptFor, f1.OptFor, f2.OptFor = a, b, c
					if mask&1 != 0 {
						f1.Imports = []int{0}
					}
					if mask&2 != 0 {
						f2.Imports = append(f2.Imports, 1)
					}
					if mask&4 != 0 {
						f2.Imports = append(f2.Imports, 0)
					}
					out.add("lite3", &ovSet{Files: []*ovFile{f0, f1, f2}})
				}
			}
		}
	}
	// file options of an edition file: every combination; and the same options in proto2/proto3 (pre)
	for _, syn := range []string{"e", "2", "3", "4"} {
		for _, j := range []string{"-", "t", "f"} {
			for _, p := range []string{"-", "e", "i", "l"} {
				for _, o := range []string{"-", "l"} {
					f := ovNewFile(syn)
					f.JUtf8, f.Pres, f.OptFor = j, p, o
					f.Msgs = []*ovMsg{{MsgSet: "-", Fields: []ovField{{Label: map[string]string{"2": "o", "3": "-", "e": "-", "4": "-"}[syn], Ty: ovSc("string"), Oneof: -1, O: ovNoOpts()}}}}
					out.add("fileopts", &ovSet{Files: []*ovFile{f}})
					// together with a LITE import
					g := ovNewFile("2")
					g.OptFor = "l"
					f2 := *f
					f2.Imports = []int{0}
					out.add("fileopts+lite", &ovSet{Files: []*ovFile{g, &f2}})
				}
			}
		}
	}
	// closed / open enums across syntaxes: a singular enum field in file 1 of an enum declared in file 0
	for _, esyn := range []string{"2", "3", "e"} {
		for _, ef := range []string{"-", "o", "c"} {
			for _, ee := range []string{"-", "o", "c"} {
				if esyn != "e" && (ef != "-" || ee != "-") {
					continue
				}
				for _, syn := range []string{"2", "3", "e"} {
					for _, fp := range []string{"-", "i", "e"} {
						if syn != "e" && fp != "-" {
							continue
						}
						for _, l := range ovLabels(syn) {
							for _, fo := range []string{"-", "i", "e", "l"} {
								if syn != "e" && fo != "-" {
									continue
								}
								f0 := ovNewFile(esyn)
								f0.EnumT = ef
								f0.Enums = []string{ee}
								f1 := ovNewFile(syn)
								f1.Pres = fp
								f1.Imports = []int{0}
								o := ovNoOpts()
								o.Pres = fo
								f1.Msgs = []*ovMsg{{MsgSet: "-", Fields: []ovField{
									{Label: l, Ty: ovEn(0, 0), Oneof: -1, O: o},
									{Label: "-", Ty: ovMap("int32", ovEn(0, 0)), Oneof: -1, O: o},
									{Label: "-", Ty: ovEn(0, 0), Oneof: 0, O: ovNoOpts()},
								}}}
								out.add("enum-closed", &ovSet{Files: []*ovFile{f0, f1}})
							}
						}
					}
				}
			}
		}
	}
}

// ---------------------------------------------------------------- family 3: extensions

func ovSpanStmt(verif string, spans ...int64) *ovStmt {
	st := &ovStmt{Verif: verif}
	for i := 0; i+1 < len(spans); i += 2 {
		st.Spans = append(st.Spans, ovSpan{spans[i], spans[i+1]})
	}
	return st
}

const (
	ovFieldMax      = 536870911
	ovMessageSetMax = 2147483646
)

func ovExtensionFamily(out *ovOut, tier string) {
	thorough := tier == "thorough"
	extCnt := 0
	// extendee in file 0 (proto2 or editions), extension in file 1 (or in file 0 itself)
	for _, esyn := range []string{"2", "e"} {
		for _, ms := range []string{"-", "t", "f"} {
			for _, eopt := range []string{"-", "l"} {
				for _, xsyn := range []string{"2", "e"} {
					for _, xopt := range []string{"-", "l", "s"} {
						for _, same := range []bool{false, true} {
							if same && (xsyn != esyn || xopt != eopt) {
								continue
							}
							for _, xmenc := range []string{"-", "d"} {
								if xsyn != "e" && xmenc != "-" {
									continue
								}
								hi := int64(ovFieldMax)
								if ms == "t" {
									hi = ovMessageSetMax
								}
								nums := []int64{4, hi}
								if ms == "t" {
									nums = append(nums, ovFieldMax, ovFieldMax+1)
								}
								var types []ovType
								for _, s := range []string{"int32", "string", "int64"} {
									types = append(types, ovSc(s))
								}
								xfile := 1
								if same {
									xfile = 0
								}
								types = append(types, ovMs(0, 0), ovMs(xfile, xfileMsgBase(same)), ovEn(0, 0))
								if xsyn == "2" {
									types = append(types, ovType{K: "g"})
								}
								for _, t := range types {
									for _, l := range ovExtLabels(xsyn) {
										for ni, n := range nums {
											if !thorough && ni > 0 && t.K != "m" && t.K != "s" {
												continue
											}
											var optsets []ovOpts
											optsets = append(optsets, ovNoOpts())
											if ni == 0 {
												for _, s := range ovSettings {
													if ovSettingIsPre(xsyn, l, t, s) {
														continue
													}
													if !thorough && (s.val == "f" || s.opt == "ctype") {
														continue
													}
													optsets = append(optsets, ovNoOpts().with(s))
												}
											}
											for oi, o := range optsets {
												extCnt++
												if !thorough && oi > 0 && extCnt%3 != 0 {
													continue
												}
												f0 := ovNewFile(esyn)
												f0.OptFor = eopt
												f0.Enums = []string{"-"}
												f0.Msgs = []*ovMsg{{MsgSet: ms, Stmts: []*ovStmt{ovSpanStmt("-", 4, hi)}}}
												fx := f0
												files := []*ovFile{f0}
												if !same {
													fx = ovNewFile(xsyn)
													fx.OptFor = xopt
													fx.Imports = []int{0}
													fx.Msgs = []*ovMsg{{MsgSet: "-"}}
													files = append(files, fx)
												} else {
													f0.Msgs = append(f0.Msgs, &ovMsg{MsgSet: "-"})
												}
												fx.MEnc = xmenc
												fx.Exts = []ovExt{{EFile: 0, EMsg: 0, Num: n, Label: l, Ty: t, O: o}}
												out.add("ext", &ovSet{Files: files})
											}
										}
									}
								}
							}
						}
					}
				}
			}
		}
	}
}

// index of the plain message M? usable as a message TYPE from the extension's file: when the
// extension lives in file 0 it is M1 of file 0, otherwise M0 of file 1.
func xfileMsgBase(same bool) int {
	if same {
		return 1
	}
	return 0
}

// ---------------------------------------------------------------- family 4: declarations

func ovI64(n int64) *int64   { return &n }
func ovStr(s string) *string { return &s }

func ovDeclarationFamily(out *ovOut, tier string) {
	thorough := tier == "thorough"
	// the extendee is M0 of file 0 (package p0) with the range 4..8; the extension x0 of file 0 has number 5
	names := []*string{nil, ovStr(".p0.x0"), ovStr("p0.x0"), ovStr(".p0.other"), ovStr(".1bad"), ovStr("."), ovStr("")}
	types := []*string{nil, ovStr("int32"), ovStr("string"), ovStr(".p0.M1"), ovStr("p0.M1"), ovStr(".p0.E0"), ovStr(".9.x"), ovStr("group"), ovStr("")}
	nums := []*int64{nil, ovI64(5), ovI64(4), ovI64(8), ovI64(3), ovI64(9), ovI64(0), ovI64(-1)}
	tri := []string{"-", "t", "f"}
	type xvar struct {
		present bool
		label   string
		ty      ovType
	}
	xvars := []xvar{{false, "", ovType{}}, {true, "o", ovSc("int32")}, {true, "r", ovSc("int32")}, {true, "o", ovMs(0, 1)}, {true, "o", ovSc("string")}}
	cnt := 0
	for _, verif := range []string{"-", "d", "u"} {
		for _, nm := range names {
			for _, ty := range types {
				for _, num := range nums {
					for _, rs := range tri {
						for _, rp := range tri {
							for xi, xv := range xvars {
								cnt++
								if !thorough {
									// quick: a third of the single-declaration shapes with the int32 extension, a
									// fifteenth of the rest (every value of every component still occurs with every other)
									if xi != 1 && cnt%15 != 0 {
										continue
									}
									if xi == 1 && cnt%3 != 0 && (rp != "-" || rs == "f") {
										continue
									}
								}
								f := ovNewFile("2")
								f.Enums = []string{"-"}
								st := ovSpanStmt(verif, 4, 8)
								st.Decls = []ovDecl{{Num: num, Name: nm, Type: ty, Rsvd: rs, Rep: rp}}
								f.Msgs = []*ovMsg{{MsgSet: "-", Stmts: []*ovStmt{st}}, {MsgSet: "-"}}
								if xv.present {
									f.Exts = []ovExt{{EFile: 0, EMsg: 0, Num: 5, Label: xv.label, Ty: xv.ty, O: ovNoOpts()}}
								}
								out.add("decl1", &ovSet{Files: []*ovFile{f}})
							}
						}
					}
				}
			}
		}
	}
	// no declarations: verification x extension present
	for _, verif := range []string{"-", "d", "u"} {
		for _, xv := range xvars {
			for _, spans := range [][]int64{{4, 8}, {4, 4, 5, 8}, {5, 5}, {6, 8, 4, 5}} {
				f := ovNewFile("2")
				f.Msgs = []*ovMsg{{MsgSet: "-", Stmts: []*ovStmt{ovSpanStmt(verif, spans...)}}, {MsgSet: "-"}}
				if xv.present {
					f.Exts = []ovExt{{EFile: 0, EMsg: 0, Num: 5, Label: xv.label, Ty: xv.ty, O: ovNoOpts()}}
				}
				out.add("decl0", &ovSet{Files: []*ovFile{f}})
			}
		}
	}
	// two declarations: numbers, names, reserved; one or two statements; one or two messages
	good := func(n int64, name string) ovDecl {
		return ovDecl{Num: ovI64(n), Name: ovStr(name), Type: ovStr("int32"), Rsvd: "-", Rep: "-"}
	}
	dnames := []string{".p0.x0", ".p0.x1", "p0.x0", ".p0.y"}
	for _, n1 := range []int64{5, 6} {
		for _, n2 := range []int64{5, 6, 9} {
			for _, a := range dnames {
				for _, b := range dnames {
					for layout := 0; layout < 4; layout++ {
						f := ovNewFile("2")
						d1, d2 := good(n1, a), good(n2, b)
						switch layout {
						case 0: // same statement
							st := ovSpanStmt("d", 4, 8)
							st.Decls = []ovDecl{d1, d2}
							f.Msgs = []*ovMsg{{MsgSet: "-", Stmts: []*ovStmt{st}}}
						case 1: // two statements of one message
							s1, s2 := ovSpanStmt("d", 4, 5), ovSpanStmt("-", 6, 9)
							s1.Decls, s2.Decls = []ovDecl{d1}, []ovDecl{d2}
							f.Msgs = []*ovMsg{{MsgSet: "-", Stmts: []*ovStmt{s1, s2}}}
						case 2: // two messages
							s1, s2 := ovSpanStmt("d", 4, 8), ovSpanStmt("d", 4, 9)
							s1.Decls, s2.Decls = []ovDecl{d1}, []ovDecl{d2}
							f.Msgs = []*ovMsg{{MsgSet: "-", Stmts: []*ovStmt{s1}}, {MsgSet: "-", Stmts: []*ovStmt{s2}}}
						case 3: // one statement with two spans
							st := ovSpanStmt("d", 4, 5, 6, 9)
							st.Decls = []ovDecl{d1, d2}
							f.Msgs = []*ovMsg{{MsgSet: "-", Stmts: []*ovStmt{st}}}
						}
						for _, withExt := range []bool{false, true} {
							g := *f
							if withExt {
								g.Exts = []ovExt{{EFile: 0, EMsg: 0, Num: 5, Label: "o", Ty: ovSc("int32"), O: ovNoOpts()},
									{EFile: 0, EMsg: 0, Num: 6, Label: "o", Ty: ovSc("int32"), O: ovNoOpts()}}
							}
							out.add("decl2", &ovSet{Files: []*ovFile{&g}})
						}
					}
				}
			}
		}
	}
	// the extension matched against a declaration: every extension type x declared type, label x repeated,
	// extension in another file / other package, group extension, enum, message
	type tyv struct {
		t    ovType
		name string // getTypeName when the extension is x0 of file 1
	}
	tys := []tyv{{ovSc("int32"), "int32"}, {ovSc("string"), "string"}, {ovSc("bytes"), "bytes"}, {ovEn(0, 0), ".p0.E0"},
		{ovMs(0, 0), ".p0.M0"}, {ovMs(1, 0), ".p1.M0"}, {ovType{K: "g"}, ".p1.X0"}}
	for _, xt := range tys {
		for _, dt := range tys {
			for _, xl := range []string{"o", "r"} {
				for _, rp := range tri {
					for _, nm := range []string{".p1.x0", ".p0.x0", "p1.x0"} {
						f0 := ovNewFile("2")
						f0.Enums = []string{"-"}
						st := ovSpanStmt("d", 4, 8)
						st.Decls = []ovDecl{{Num: ovI64(5), Name: ovStr(nm), Type: ovStr(dt.name), Rsvd: "-", Rep: rp}}
						f0.Msgs = []*ovMsg{{MsgSet: "-", Stmts: []*ovStmt{st}}}
						f1 := ovNewFile("2")
						f1.Imports = []int{0}
						f1.Msgs = []*ovMsg{{MsgSet: "-"}}
						f1.Exts = []ovExt{{EFile: 0, EMsg: 0, Num: 5, Label: xl, Ty: xt.t, O: ovNoOpts()}}
						out.add("declmatch", &ovSet{Files: []*ovFile{f0, f1}})
					}
				}
			}
		}
	}
}

// ---------------------------------------------------------------- family 5: earlier phases (pre)

func ovPreFamily(out *ovOut) {
	// message_set_wire_format shapes
	for _, syn := range []string{"2", "3", "e"} {
		for _, ms := range []string{"t", "f"} {
			for _, withField := range []bool{false, true} {
				for _, withRange := range []bool{false, true} {
					if syn == "3" && withRange {
						continue
					}
					f := ovNewFile(syn)
					m := &ovMsg{MsgSet: ms}
					if withField {
						m.Fields = []ovField{{Label: map[string]string{"2": "o", "3": "-", "e": "-"}[syn], Ty: ovSc("int32"), Oneof: -1, O: ovNoOpts()}}
					}
					if withRange {
						m.Stmts = []*ovStmt{ovSpanStmt("-", 4, 9)}
					}
					f.Msgs = []*ovMsg{m}
					out.add("pre-msgset", &ovSet{Files: []*ovFile{f}})
				}
			}
		}
	}
	// extension number outside the ranges; a failing dependency; a pre file that also has a failing dependency
	for _, n := range []int64{3, 4, 9, 10, ovFieldMax, ovFieldMax + 1} {
		for _, ms := range []string{"-", "t"} {
			f := ovNewFile("2")
			f.Msgs = []*ovMsg{{MsgSet: ms, Stmts: []*ovStmt{ovSpanStmt("-", 4, 9)}}}
			f.Exts = []ovExt{{EFile: 0, EMsg: 0, Num: n, Label: "o", Ty: ovMs(0, 0), O: ovNoOpts()}}
			out.add("pre-extrange", &ovSet{Files: []*ovFile{f}})
		}
	}
	for _, bad0 := range []string{"v", "pre", "crash", "ok"} {
		for _, kind1 := range []string{"ok", "parsepre", "linkpre", "v"} {
			for _, imp := range []bool{true, false} {
				f0 := ovNewFile("3")
				o := ovNoOpts()
				switch bad0 {
				case "v":
					o.Lazy = "t"
				case "pre":
					o.Def = true
				case "crash":
					o.Packed = "t"
				}
				f0.Msgs = []*ovMsg{{MsgSet: "-", Fields: []ovField{{Label: "-", Ty: ovSc("int32"), Oneof: -1, O: o}}}}
				f1 := ovNewFile("2")
				if imp {
					f1.Imports = []int{0}
				}
				o1 := ovNoOpts()
				l1 := "o"
				switch kind1 {
				case "parsepre":
					o1.Pres = "e"
				case "linkpre":
					o1.Def = true
					l1 = "r"
				case "v":
					o1.Jstype = "s"
				}
				f1.Msgs = []*ovMsg{{MsgSet: "-", Fields: []ovField{{Label: l1, Ty: ovSc("int32"), Oneof: -1, O: o1}}}}
				f2 := ovNewFile("e")
				f2.Imports = []int{1}
				out.add("phases", &ovSet{Files: []*ovFile{f0, f1, f2}})
			}
		}
	}
}

// ---------------------------------------------------------------- random larger file sets

func ovRandTri(r *Rand, pSet int) string {
	if r.Intn(100) >= pSet {
		return "-"
	}
	if r.Bool() {
		return "t"
	}
	return "f"
}

func ovRandOf(r *Rand, pSet int, vals string) string {
	if r.Intn(100) >= pSet {
		return "-"
	}
	return string(vals[r.Intn(len(vals))])
}

func ovRandOpts(r *Rand, syn, label string, t ovType, isExt bool) ovOpts {
	o := ovNoOpts()
	k := r.Intn(4) // number of options
	for i := 0; i < k; i++ {
		s := ovSettings[r.Intn(len(ovSettings))]
		if ovSettingIsPre(syn, label, t, s) && r.Intn(40) != 0 {
			continue
		}
		o = o.with(s)
	}
	return o
}

func ovRandSet(r *Rand) *ovSet {
	nf := 1 + r.Intn(4)
	s := &ovSet{}
	type msgInfo struct{ file, idx int }
	extNums := map[string]bool{}
	for i := 0; i < nf; i++ {
		syn := Pick(r, []string{"2", "2", "3", "e", "e"})
		f := ovNewFile(syn)
		f.OptFor = ovRandOf(r, 35, "scll")
		if syn == "e" {
			f.JUtf8 = ovRandTri(r, 6)
			f.Pres = ovRandOf(r, 30, "eiil")
			if f.Pres == "l" && r.Intn(3) != 0 {
				f.Pres = "i"
			}
			f.EnumT = ovRandOf(r, 25, "oc")
			f.MEnc = ovRandOf(r, 25, "ld")
		} else {
			f.JUtf8 = ovRandTri(r, 10)
		}
		for k := 0; k < i; k++ {
			if r.Intn(100) < 60 {
				f.Imports = append(f.Imports, k)
			}
		}
		ne := r.Intn(3)
		for k := 0; k < ne; k++ {
			e := "-"
			if syn == "e" {
				e = ovRandOf(r, 50, "oc")
			}
			f.Enums = append(f.Enums, e)
		}
		nm := 1 + r.Intn(3)
		for j := 0; j < nm; j++ {
			f.Msgs = append(f.Msgs, &ovMsg{MsgSet: "-"})
		}
		s.Files = append(s.Files, f)
	}
	visible := func(i int) []int {
		v := append([]int{i}, s.Files[i].Imports...)
		return v
	}
	randType := func(i int, allowGroup, allowMap bool) ovType {
		f := s.Files[i]
		for {
			switch r.Intn(8) {
			case 0, 1, 2:
				return ovSc(Pick(r, ovScalars))
			case 3:
				vf := Pick(r, visible(i))
				if n := len(s.Files[vf].Enums); n > 0 {
					return ovEn(vf, r.Intn(n))
				}
			case 4, 5:
				vf := Pick(r, visible(i))
				return ovMs(vf, r.Intn(len(s.Files[vf].Msgs)))
			case 6:
				if allowGroup && f.Syn == "2" {
					return ovType{K: "g"}
				}
			case 7:
				if allowMap {
					k := Pick(r, []string{"int32", "string", "bool", "uint64", "sfixed32"})
					v := ovSc(Pick(r, ovScalars))
					switch r.Intn(3) {
					case 0:
						vf := Pick(r, visible(i))
						if n := len(s.Files[vf].Enums); n > 0 {
							v = ovEn(vf, r.Intn(n))
						}
					case 1:
						vf := Pick(r, visible(i))
						v = ovMs(vf, r.Intn(len(s.Files[vf].Msgs)))
					}
					return ovMap(k, v)
				}
			}
		}
	}
	for i, f := range s.Files {
		for _, m := range f.Msgs {
			isSet := f.Syn != "3" && r.Intn(6) == 0
			nfld := r.Intn(4)
			if isSet {
				m.MsgSet = "t"
				nfld = 0
			} else if r.Intn(10) == 0 {
				m.MsgSet = "f"
			}
			oneof := -1
			for l := 0; l < nfld; l++ {
				inOneof := r.Intn(5) == 0
				if inOneof {
					if oneof < 0 || r.Intn(2) == 0 {
						oneof++
					}
				}
				var fl ovField
				if inOneof {
					t := randType(i, true, false)
					fl = ovField{Label: "-", Ty: t, Oneof: oneof}
				} else {
					t := randType(i, true, true)
					lab := "-"
					if t.K != "map" {
						lab = Pick(r, ovLabels(f.Syn))
					}
					fl = ovField{Label: lab, Ty: t, Oneof: -1}
					if oneof >= 0 {
						oneof++ // a later oneof member starts a new block
					}
				}
				fl.O = ovRandOpts(r, f.Syn, fl.Label, fl.Ty, false)
				m.Fields = append(m.Fields, fl)
			}
			// extension ranges (not in proto3)
			if f.Syn != "3" && (isSet || r.Intn(2) == 0) {
				maxTag := int64(ovFieldMax)
				if isSet {
					maxTag = ovMessageSetMax
				}
				lo := int64(nfld + 1 + r.Intn(3))
				nst := 1 + r.Intn(2)
				for k := 0; k < nst; k++ {
					st := &ovStmt{Verif: ovRandOf(r, 50, "ddu")}
					nsp := 1
					if r.Intn(6) == 0 {
						nsp = 2
					}
					for q := 0; q < nsp; q++ {
						hi := lo + int64(r.Intn(4))
						if r.Intn(8) == 0 {
							hi = maxTag
						}
						st.Spans = append(st.Spans, ovSpan{lo, hi})
						lo = hi + 1 + int64(r.Intn(2))
						if hi == maxTag {
							break
						}
					}
					m.Stmts = append(m.Stmts, st)
					if lo > maxTag {
						break
					}
				}
			}
		}
	}
	// extensions
	type extInfo struct {
		file, n int
		x       ovExt
	}
	var exts []extInfo
	for i, f := range s.Files {
		if f.Syn == "3" {
			continue
		}
		nx := r.Intn(4)
		for k := 0; k < nx; k++ {
			vf := Pick(r, visible(i))
			mi := r.Intn(len(s.Files[vf].Msgs))
			m := s.Files[vf].Msgs[mi]
			var spans []ovSpan
			for _, st := range m.Stmts {
				spans = append(spans, st.Spans...)
			}
			if len(spans) == 0 {
				continue
			}
			sp := Pick(r, spans)
			num := sp.Lo + int64(r.Intn(int(minI64(sp.Hi-sp.Lo+1, 4))))
			if r.Intn(4) == 0 {
				num = sp.Hi
			}
			key := fmt.Sprintf("%d.%d.%d", vf, mi, num)
			if extNums[key] {
				continue
			}
			extNums[key] = true
			t := randType(i, true, false)
			if m.MsgSet == "t" && r.Intn(3) != 0 {
				t = ovMs(vf, mi)
			}
			lab := Pick(r, ovExtLabels(f.Syn))
			x := ovExt{EFile: vf, EMsg: mi, Num: num, Label: lab, Ty: t}
			x.O = ovRandOpts(r, f.Syn, lab, t, true)
			exts = append(exts, extInfo{i, len(f.Exts), x})
			f.Exts = append(f.Exts, x)
		}
	}
	// declarations: mostly describing the real extensions, then perturbed
	typeName := func(e extInfo) string {
		switch e.x.Ty.K {
		case "s":
			return e.x.Ty.S
		case "e":
			return fmt.Sprintf(".p%d.E%d", e.x.Ty.F, e.x.Ty.I)
		case "m":
			return fmt.Sprintf(".p%d.M%d", e.x.Ty.F, e.x.Ty.I)
		}
		return fmt.Sprintf(".p%d.X%d", e.file, e.n)
	}
	usedNames := map[string]int{}
	for i, f := range s.Files {
		for mi, m := range f.Msgs {
			for _, st := range m.Stmts {
				if r.Intn(2) == 0 {
					continue
				}
				for _, e := range exts {
					if e.x.EFile != i || e.x.EMsg != mi {
						continue
					}
					in := false
					for _, sp := range st.Spans {
						if sp.Lo <= e.x.Num && e.x.Num <= sp.Hi {
							in = true
						}
					}
					if !in || r.Intn(5) == 0 {
						continue
					}
					d := ovDecl{Num: ovI64(e.x.Num), Name: ovStr(fmt.Sprintf(".p%d.x%d", e.file, e.n)), Type: ovStr(typeName(e)), Rsvd: "-", Rep: "-"}
					if e.x.Label == "r" {
						d.Rep = "t"
					}
					// perturbations
					switch r.Intn(14) {
					case 0:
						d.Num = nil
					case 1:
						d.Num = ovI64(e.x.Num + 1)
					case 2:
						d.Name = nil
					case 3:
						d.Name = ovStr((*d.Name)[1:])
					case 4:
						d.Name = ovStr(".p9.zz" + strconv.Itoa(r.Intn(3)))
					case 5:
						d.Type = nil
					case 6:
						d.Type = ovStr(Pick(r, []string{"int32", "string", ".p0.M0", "p0.M0", ".0", "bool"}))
					case 7:
						d.Rsvd = Pick(r, []string{"t", "f"})
					case 8:
						d.Rep = Pick(r, []string{"t", "f", "-"})
					case 9:
						d.Rsvd = "t"
						d.Name, d.Type = nil, nil
					}
					if d.Name != nil {
						nm := *d.Name
						if len(nm) > 0 && nm[0] == '.' {
							nm = nm[1:]
						}
						if prev, ok := usedNames[nm]; ok && prev != i {
							continue // the same declared name in two files: order of the shared symbol table is not determined
						}
						usedNames[nm] = i
					}
					st.Decls = append(st.Decls, d)
				}
				if r.Intn(6) == 0 && len(st.Spans) > 0 {
					// a declaration without extension
					sp := st.Spans[0]
					nm := fmt.Sprintf("p%d.free%d", i, r.Intn(2))
					if prev, ok := usedNames[nm]; !ok || prev == i {
						usedNames[nm] = i
						st.Decls = append(st.Decls, ovDecl{Num: ovI64(sp.Lo + int64(r.Intn(int(minI64(sp.Hi-sp.Lo+1, 3))))), Name: ovStr("." + nm),
							Type: ovStr("int32"), Rsvd: ovRandTri(r, 30), Rep: "-"})
					}
				}
			}
		}
	}
	return s
}

func minI64(a, b int64) int64 {
	if a < b {
		return a
	}
	return b
}

// ---------------------------------------------------------------- Gen

func (ovEngine) Gen(r *Rand, tier string) [][]string {
	out := &ovOut{}
	for _, op := range ovAnchorOps() {
		out.ops = append(out.ops, op)
	}
	ovFileFamily(out)
	ovPreFamily(out)
	ovOneFieldFamily(out, tier)
	ovExtensionFamily(out, tier)
	ovDeclarationFamily(out, tier)
	ovTwoOptionFamily(out, tier)
	n := 1500
	if tier == "thorough" {
		n = 150000
	}
	for i := 0; i < n; i++ {
		out.add("rand", ovRandSet(r))
	}
	cases := make([][]string, len(out.ops))
	for i, op := range out.ops {
		cases[i] = []string{op}
	}
	return cases
}
