package engines

import (
	"context"
	"fmt"
	"math"
	"sort"
	"strconv"
	"strings"

	"github.com/bufbuild/protocompile"
	"github.com/bufbuild/protocompile/linker"
	"github.com/bufbuild/protocompile/protoutil"
	"google.golang.org/protobuf/proto"
	"google.golang.org/protobuf/reflect/protodesc"
	"google.golang.org/protobuf/reflect/protoreflect"
	"google.golang.org/protobuf/reflect/protoregistry"
	"google.golang.org/protobuf/types/descriptorpb"
)

// attrs: descriptor views of the linker vs the Go protobuf runtime (C04).
//
// A case is
//
//	src <path> <hex source>      (one per file; dependencies first)
//	compile                      compile all sources with protocompile, then build the runtime's
//	                             descriptors with protodesc.NewFile from the compiled protos
//	file|msg|fld|dfl|oneof|enum|mtd <full name> key=value...   one op per element
//
// Element ops carry the *facts* about the element: what the compiled FileDescriptorProto says
// (label, type, oneof index, options, the explicit feature overrides of the element and of each
// ancestor, facts about the referenced message/enum). The generator reads them off the protos only,
// never through descriptor methods. Exec answers with the attribute vector of the linker's descriptor
// ("L ...") and of the runtime's descriptor ("R ..."); the Lean model computes both from the facts.
// `dfl` is the default value (Default, DefaultEnumValue); explicit float/double/bytes defaults are
// compared here and answered "same"/"differ ..." because their parsers are not modelled.
//
// When protodesc.NewFile rejects a message field for one of three modelled reasons (attrsRejectCodes)
// the field's verdict is recorded (rv=<code>, "R none") and a copy of the proto is repaired so that all
// other elements of the file can still be compared. Any other NewFile error makes `compile` answer
// "newfile-error ...".
//
// Two more ops validate model tables: `dflt <edition>` (feature defaults as protoutil reports them) and
// `camel <hex name>` (the runtime's JSON name for a field without json_name).

type attrsEngine struct {
	srcs   map[string]string
	order  []string
	lfiles map[string]linker.File
	rfiles map[string]protoreflect.FileDescriptor
	lall   []linker.File
	rall   *protoregistry.Files
	status string
	// rv: runtime verdict per field full name, for fields protodesc.NewFile rejected
	// (the proto handed to the runtime was repaired so that the rest of the file can be compared)
	rv        map[string]string
	walkCache map[string][]string
	// noConc: skip the concurrent first observation (the generator's scratch engine: its compile result
	// is not the one Exec observes)
	noConc bool
}

// attrsConcSample: every attrsConcSample-th chunk of elements gets the concurrent first observation
// (messages with required fields always do). Set by Gen per tier; 1 = everything.
var attrsConcSample = 1

func init() { Register("attrs", func() Engine { return &attrsEngine{} }) }

func (e *attrsEngine) Name() string { return "attrs" }
func (e *attrsEngine) Reset() {
	e.srcs = map[string]string{}
	e.order = nil
	e.lfiles = nil
	e.rfiles = nil
	e.lall = nil
	e.rall = nil
	e.status = ""
	e.rv = map[string]string{}
	e.walkCache = nil
}

// ---------------------------------------------------------------- compile

type attrsResolver struct{ local *protoregistry.Files }

func (r attrsResolver) FindFileByPath(p string) (protoreflect.FileDescriptor, error) {
	if f, err := r.local.FindFileByPath(p); err == nil {
		return f, nil
	}
	return protoregistry.GlobalFiles.FindFileByPath(p)
}

func (r attrsResolver) FindDescriptorByName(n protoreflect.FullName) (protoreflect.Descriptor, error) {
	if d, err := r.local.FindDescriptorByName(n); err == nil {
		return d, nil
	}
	return protoregistry.GlobalFiles.FindDescriptorByName(n)
}

// attrsCompile compiles every source with the real compiler. It returns the
// linker files (in the order of `order`).
func attrsCompile(srcs map[string]string, order []string) ([]linker.File, error) {
	c := protocompile.Compiler{
		Resolver: protocompile.WithStandardImports(&protocompile.SourceResolver{
			Accessor: protocompile.SourceAccessorFromMap(srcs),
		}),
		// source code info, so that SourceLocations() of both views can be compared
		SourceInfoMode: protocompile.SourceInfoStandard,
	}
	fs, err := c.Compile(context.Background(), order...)
	if err != nil {
		return nil, err
	}
	out := make([]linker.File, len(fs))
	copy(out, fs)
	return out, nil
}

func attrsProto(f linker.File) *descriptorpb.FileDescriptorProto {
	if r, ok := f.(linker.Result); ok {
		return r.FileDescriptorProto()
	}
	return protoutil.ProtoFromFileDescriptor(f)
}

// attrsRejectCodes maps the field-level rejections of protodesc.NewFile that the model predicts.
var attrsRejectCodes = []struct{ needle, code string }{
	{"using proto3 semantics may only depend on open enums", "p3closed"},
	{"with implicit presence may only use open enums", "implclosed"},
	{"is an invalid map: map enum value must have zero number for the first value", "mapenum0"},
}

func attrsFindFieldProto(fdp *descriptorpb.FileDescriptorProto, fqn string) (*descriptorpb.FieldDescriptorProto, *descriptorpb.DescriptorProto) {
	var res *descriptorpb.FieldDescriptorProto
	var owner *descriptorpb.DescriptorProto
	var walk func(prefix string, mds []*descriptorpb.DescriptorProto)
	walk = func(prefix string, mds []*descriptorpb.DescriptorProto) {
		for _, md := range mds {
			mf := attrsJoin(prefix, md.GetName())
			for _, f := range md.GetField() {
				if attrsJoin(mf, f.GetName()) == fqn {
					res, owner = f, md
				}
			}
			walk(mf, md.GetNestedType())
		}
	}
	walk(fdp.GetPackage(), fdp.GetMessageType())
	return res, owner
}

func attrsNeutralize(f *descriptorpb.FieldDescriptorProto) {
	f.Type = descriptorpb.FieldDescriptorProto_TYPE_INT32.Enum()
	f.TypeName = nil
	f.DefaultValue = nil
}

// attrsNewFileRepairing calls protodesc.NewFile; when the runtime rejects a message field for one of
// the modelled reasons the verdict is recorded and a *copy* of the proto is repaired (the field's type
// becomes int32) so that every other element can still be compared.
func attrsNewFileRepairing(fdp *descriptorpb.FileDescriptorProto, res protodesc.Resolver, rv map[string]string) (protoreflect.FileDescriptor, error) {
	cur := fdp
	for iter := 0; iter < 400; iter++ {
		rf, err := protodesc.NewFile(cur, res)
		if err == nil {
			return rf, nil
		}
		msg := err.Error()
		i := strings.Index(msg, `message field "`)
		if i < 0 {
			return nil, err
		}
		rest := msg[i+len(`message field "`):]
		j := strings.Index(rest, `"`)
		if j < 0 {
			return nil, err
		}
		fqn := rest[:j]
		code := ""
		for _, rc := range attrsRejectCodes {
			if strings.Contains(rest[j:], rc.needle) {
				code = rc.code
			}
		}
		if code == "" || rv[fqn] != "" {
			return nil, err
		}
		if cur == fdp {
			cur = proto.Clone(fdp).(*descriptorpb.FileDescriptorProto)
		}
		f, owner := attrsFindFieldProto(cur, fqn)
		if f == nil {
			return nil, err
		}
		rv[fqn] = code
		if code == "mapenum0" {
			// repair the value field of the map entry
			entry := strings.TrimPrefix(f.GetTypeName(), ".")
			var vf *descriptorpb.FieldDescriptorProto
			for _, n := range owner.GetNestedType() {
				if strings.HasSuffix(entry, "."+n.GetName()) || entry == n.GetName() {
					for _, ef := range n.GetField() {
						if ef.GetNumber() == 2 {
							vf = ef
						}
					}
				}
			}
			if vf == nil {
				return nil, err
			}
			rv[entry+"."+vf.GetName()] = "mapenum0v"
			attrsNeutralize(vf)
		} else {
			attrsNeutralize(f)
		}
	}
	return nil, fmt.Errorf("too many repairs")
}

// attrsRuntime builds the runtime's descriptors for the compiled files from
// their protos, dependencies first.
func attrsRuntime(lfs []linker.File, rv map[string]string) (map[string]protoreflect.FileDescriptor, *protoregistry.Files, error) {
	reg := new(protoregistry.Files)
	out := map[string]protoreflect.FileDescriptor{}
	pending := append([]linker.File{}, lfs...)
	for len(pending) > 0 {
		progressed := false
		var next []linker.File
		for _, f := range pending {
			ready := true
			fdp := attrsProto(f)
			for _, d := range fdp.GetDependency() {
				if _, err := (attrsResolver{reg}).FindFileByPath(d); err != nil {
					ready = false
				}
			}
			if !ready {
				next = append(next, f)
				continue
			}
			rf, err := attrsNewFileRepairing(fdp, attrsResolver{reg}, rv)
			if err != nil {
				return nil, nil, fmt.Errorf("%s: %v", f.Path(), err)
			}
			if err := reg.RegisterFile(rf); err != nil {
				return nil, nil, fmt.Errorf("%s: register: %v", f.Path(), err)
			}
			out[f.Path()] = rf
			progressed = true
		}
		if !progressed {
			return nil, nil, fmt.Errorf("unresolvable imports")
		}
		pending = next
	}
	return out, reg, nil
}

func (e *attrsEngine) compile() string {
	lfs, err := attrsCompile(e.srcs, e.order)
	if err != nil {
		e.status = "compile-error"
		return "compile-error " + Canon(err.Error())
	}
	e.lall = lfs
	e.lfiles = map[string]linker.File{}
	for _, f := range lfs {
		e.lfiles[f.Path()] = f
	}
	rfs, reg, err := attrsRuntime(lfs, e.rv)
	if err != nil {
		e.status = "newfile-error"
		return "newfile-error " + Canon(err.Error())
	}
	e.rfiles, e.rall = rfs, reg
	e.status = "ok"
	// first observation of the freshly compiled descriptors: by several goroutines at once
	if !e.noConc {
		if d := e.concFirstObservation(attrsConcSample); d != "" {
			return d
		}
	}
	return "ok"
}

// ---------------------------------------------------------------- vectors

var attrsFeatureNames = []string{"field_presence", "enum_type", "repeated_field_encoding", "utf8_validation", "message_encoding", "json_format"}

// letters per feature, indexed by enum number
var attrsFeatureLetters = []string{"UEIL", "UOC", "UPX", "U?VN", "ULD", "UAB"}

func attrsFeatureLetter(i int, n int32) byte {
	l := attrsFeatureLetters[i]
	if n < 0 || int(n) >= len(l) {
		return '?'
	}
	return l[n]
}

var attrsFSD = (*descriptorpb.FeatureSet)(nil).ProtoReflect().Descriptor()

// attrsOv encodes the explicit overrides of one FeatureSet (nil: "------").
func attrsOv(fs *descriptorpb.FeatureSet) string {
	b := []byte("------")
	if fs == nil {
		return string(b)
	}
	m := fs.ProtoReflect()
	for i, n := range attrsFeatureNames {
		fd := attrsFSD.Fields().ByName(protoreflect.Name(n))
		if m.Has(fd) {
			b[i] = attrsFeatureLetter(i, int32(m.Get(fd).Enum()))
		}
	}
	return string(b)
}

// attrsResolved is the `rf` attribute: protoutil.ResolveFeature on the descriptor.
func attrsResolved(d protoreflect.Descriptor) string {
	b := []byte("------")
	for i, n := range attrsFeatureNames {
		fd := attrsFSD.Fields().ByName(protoreflect.Name(n))
		v, err := protoutil.ResolveFeature(d, fd)
		if err != nil {
			b[i] = '!'
			continue
		}
		b[i] = attrsFeatureLetter(i, int32(v.Enum()))
	}
	return string(b)
}

func attrsB01(b bool) string {
	if b {
		return "1"
	}
	return "0"
}

func attrsDashIfEmpty(s string) string {
	if s == "" {
		return "-"
	}
	return s
}

func attrsHexS(s string) string { return Hex([]byte(s)) }

func attrsFullNameOrDash(d protoreflect.Descriptor) string {
	if d == nil {
		return "-"
	}
	return attrsDashIfEmpty(string(d.FullName()))
}

func attrsFieldVec(fd protoreflect.FieldDescriptor) string {
	var sb strings.Builder
	w := func(k, v string) { sb.WriteString(" " + k + "=" + v) }
	w("name", string(fd.Name()))
	w("fqn", string(fd.FullName()))
	w("num", strconv.Itoa(int(fd.Number())))
	w("card", strconv.Itoa(int(fd.Cardinality())))
	w("kind", strconv.Itoa(int(fd.Kind())))
	w("pres", attrsB01(fd.HasPresence()))
	w("optkw", attrsB01(fd.HasOptionalKeyword()))
	w("packed", attrsB01(fd.IsPacked()))
	w("list", attrsB01(fd.IsList()))
	w("map", attrsB01(fd.IsMap()))
	w("isext", attrsB01(fd.IsExtension()))
	w("hasjson", attrsB01(fd.HasJSONName()))
	w("json", attrsHexS(fd.JSONName()))
	w("text", attrsHexS(fd.TextName()))
	oo := "-"
	if o := fd.ContainingOneof(); o != nil {
		oo = string(o.Name())
	}
	w("oneof", oo)
	w("cmsg", attrsFullNameOrDash(fd.ContainingMessage()))
	if m := fd.Message(); m != nil {
		w("msg", string(m.FullName()))
	} else {
		w("msg", "-")
	}
	if en := fd.Enum(); en != nil {
		w("enum", string(en.FullName()))
	} else {
		w("enum", "-")
	}
	w("hasdef", attrsB01(fd.HasDefault()))
	w("rf", attrsResolved(fd))
	return sb.String()[1:]
}

func attrsDefaultVec(fd protoreflect.FieldDescriptor) string {
	v := fd.Default()
	s := "invalid"
	if v.IsValid() {
		switch x := v.Interface().(type) {
		case bool:
			s = "bool:" + attrsB01(x)
		case int32:
			s = "i32:" + strconv.FormatInt(int64(x), 10)
		case int64:
			s = "i64:" + strconv.FormatInt(x, 10)
		case uint32:
			s = "u32:" + strconv.FormatUint(uint64(x), 10)
		case uint64:
			s = "u64:" + strconv.FormatUint(x, 10)
		case float32:
			if x != x {
				s = "f32:nan"
			} else {
				s = fmt.Sprintf("f32:%08x", math.Float32bits(x))
			}
		case float64:
			if x != x {
				s = "f64:nan"
			} else {
				s = fmt.Sprintf("f64:%016x", math.Float64bits(x))
			}
		case string:
			s = "str:" + attrsHexS(x)
		case []byte:
			s = "bytes:" + Hex(x)
		case protoreflect.EnumNumber:
			s = "enum:" + strconv.Itoa(int(x))
		default:
			s = fmt.Sprintf("other:%T", x)
		}
	}
	ev := "-"
	if d := fd.DefaultEnumValue(); d != nil {
		ev = string(d.Name())
	}
	return "v=" + s + " ev=" + ev
}

func attrsRanges(n int, get func(int) [2]int64) string {
	if n == 0 {
		return "-"
	}
	var p []string
	for i := 0; i < n; i++ {
		r := get(i)
		p = append(p, fmt.Sprintf("%d:%d", r[0], r[1]))
	}
	return strings.Join(p, ",")
}

func attrsNames(n protoreflect.Names) string {
	if n.Len() == 0 {
		return "-"
	}
	var p []string
	for i := 0; i < n.Len(); i++ {
		p = append(p, string(n.Get(i)))
	}
	return strings.Join(p, ",")
}

func attrsMsgVec(md protoreflect.MessageDescriptor) string {
	var sb strings.Builder
	w := func(k, v string) { sb.WriteString(" " + k + "=" + v) }
	w("name", string(md.Name()))
	w("fqn", string(md.FullName()))
	w("me", attrsB01(md.IsMapEntry()))
	req := md.RequiredNumbers()
	var rq []string
	for i := 0; i < req.Len(); i++ {
		rq = append(rq, strconv.Itoa(int(req.Get(i))))
	}
	w("req", attrsDashIfEmpty(strings.Join(rq, ",")))
	rr := md.ReservedRanges()
	w("rr", attrsRanges(rr.Len(), func(i int) [2]int64 { r := rr.Get(i); return [2]int64{int64(r[0]), int64(r[1])} }))
	xr := md.ExtensionRanges()
	w("xr", attrsRanges(xr.Len(), func(i int) [2]int64 { r := xr.Get(i); return [2]int64{int64(r[0]), int64(r[1])} }))
	w("rn", attrsNames(md.ReservedNames()))
	w("nf", strconv.Itoa(md.Fields().Len()))
	w("no", strconv.Itoa(md.Oneofs().Len()))
	w("rf", attrsResolved(md))
	return sb.String()[1:]
}

func attrsEnumVec(ed protoreflect.EnumDescriptor) string {
	var sb strings.Builder
	w := func(k, v string) { sb.WriteString(" " + k + "=" + v) }
	w("name", string(ed.Name()))
	w("fqn", string(ed.FullName()))
	w("closed", attrsB01(ed.IsClosed()))
	var vs []string
	for i := 0; i < ed.Values().Len(); i++ {
		v := ed.Values().Get(i)
		vs = append(vs, fmt.Sprintf("%s:%d", v.FullName(), v.Number()))
	}
	w("vals", attrsDashIfEmpty(strings.Join(vs, ",")))
	rr := ed.ReservedRanges()
	w("rr", attrsRanges(rr.Len(), func(i int) [2]int64 { r := rr.Get(i); return [2]int64{int64(r[0]), int64(r[1])} }))
	w("rn", attrsNames(ed.ReservedNames()))
	w("rf", attrsResolved(ed))
	return sb.String()[1:]
}

func attrsOneofVec(od protoreflect.OneofDescriptor) string {
	var fs []string
	for i := 0; i < od.Fields().Len(); i++ {
		fs = append(fs, string(od.Fields().Get(i).Name()))
	}
	return "name=" + string(od.Name()) + " fqn=" + string(od.FullName()) + " syn=" + attrsB01(od.IsSynthetic()) +
		" flds=" + attrsDashIfEmpty(strings.Join(fs, ","))
}

func attrsMethodVec(md protoreflect.MethodDescriptor) string {
	return "name=" + string(md.Name()) + " fqn=" + string(md.FullName()) + " in=" + attrsFullNameOrDash(md.Input()) +
		" out=" + attrsFullNameOrDash(md.Output()) + " cs=" + attrsB01(md.IsStreamingClient()) + " ss=" + attrsB01(md.IsStreamingServer())
}

func attrsSyntaxLetter(s protoreflect.Syntax) string {
	switch s {
	case protoreflect.Proto2:
		return "2"
	case protoreflect.Proto3:
		return "3"
	case protoreflect.Editions:
		return "e"
	}
	return "?"
}

func attrsFileVec(fd protoreflect.FileDescriptor) string {
	var deps []string
	for i := 0; i < fd.Imports().Len(); i++ {
		im := fd.Imports().Get(i)
		deps = append(deps, im.Path()+":"+attrsB01(im.IsPublic))
	}
	ed := "?"
	if he, ok := fd.(interface{ Edition() int32 }); ok {
		ed = strconv.Itoa(int(he.Edition()))
	}
	return "path=" + fd.Path() + " pkg=" + attrsDashIfEmpty(string(fd.Package())) + " syn=" + attrsSyntaxLetter(fd.Syntax()) +
		" ed=" + ed + " deps=" + attrsDashIfEmpty(strings.Join(deps, ",")) +
		fmt.Sprintf(" nm=%d ne=%d nx=%d ns=%d", fd.Messages().Len(), fd.Enums().Len(), fd.Extensions().Len(), fd.Services().Len()) +
		" rf=" + attrsResolved(fd)
}

// ---------------------------------------------------------------- exec

func (e *attrsEngine) findL(n string) protoreflect.Descriptor {
	for _, f := range e.lall {
		if d := f.FindDescriptorByName(protoreflect.FullName(n)); d != nil {
			return d
		}
	}
	return nil
}

func (e *attrsEngine) findR(n string) protoreflect.Descriptor {
	d, err := e.rall.FindDescriptorByName(protoreflect.FullName(n))
	if err != nil {
		return nil
	}
	// only descriptors of the files built in this case
	if _, ok := e.rfiles[d.ParentFile().Path()]; !ok {
		return nil
	}
	return d
}

func attrsOpaqueDefault(kv map[string]string) bool {
	if kv["def"] == "-" || kv["def"] == "" {
		return false
	}
	switch kv["type"] {
	case "1", "2", "12":
		return true
	}
	return false
}

func attrsKV(ws []string) map[string]string {
	m := map[string]string{}
	for _, w := range ws {
		k, v, ok := strings.Cut(w, "=")
		if ok {
			m[k] = v
		}
	}
	return m
}

func (e *attrsEngine) Exec(op string) string {
	w := strings.Fields(op)
	if len(w) == 0 {
		return "bad-op"
	}
	switch w[0] {
	case "src":
		if len(w) != 3 || e.status != "" {
			return "bad-op"
		}
		if _, dup := e.srcs[w[1]]; dup {
			return "bad-op"
		}
		e.srcs[w[1]] = string(UnHex(w[2]))
		e.order = append(e.order, w[1])
		return "ok"
	case "compile":
		if len(w) != 1 || e.status != "" || len(e.order) == 0 {
			return "bad-op"
		}
		return e.compile()
	case "view":
		if len(w) != 3 || !strings.HasPrefix(w[2], "x=") {
			return "bad-op"
		}
		return e.viewAnswer(w[1])
	case "rawdef":
		if len(w) != 4 || !strings.HasPrefix(w[3], "x=") {
			return "bad-op"
		}
		return attrsRawDefault(w[1], w[2])
	case "cfeat", "cdflt":
		if len(w) < 3 {
			return "bad-op"
		}
		return e.attrsCustomFeatureExec(w)
	case "camel":
		// runtime's JSON name for a field without json_name (validates the model's JSONCamelCase)
		if len(w) != 2 {
			return "bad-op"
		}
		return attrsCamel(w[1])
	case "dflt":
		if len(w) != 2 {
			return "bad-op"
		}
		return attrsEditionDefaults(w[1])
	}
	if len(w) < 2 {
		return "bad-op"
	}
	if e.status == "" || e.status == "compile-error" {
		return "bad-state not-compiled"
	}
	name := w[1]
	var l, r protoreflect.Descriptor
	if w[0] == "file" {
		if f, ok := e.lfiles[name]; ok {
			l = f
		}
		if e.rfiles != nil {
			if f, ok := e.rfiles[name]; ok {
				r = f
			}
		}
	} else {
		l = e.findL(name)
		if e.rall != nil {
			r = e.findR(name)
		}
	}
	if l == nil {
		return "bad-state no-such-element"
	}
	if xt, ok := l.(protoreflect.ExtensionTypeDescriptor); ok {
		l = xt.Descriptor()
	}
	if r != nil {
		if xt, ok := r.(protoreflect.ExtensionTypeDescriptor); ok {
			r = xt.Descriptor()
		}
	}
	vec := func(d protoreflect.Descriptor) (string, bool) {
		switch w[0] {
		case "fld":
			if x, ok := d.(protoreflect.FieldDescriptor); ok {
				return attrsFieldVec(x), true
			}
		case "dfl":
			if x, ok := d.(protoreflect.FieldDescriptor); ok {
				return attrsDefaultVec(x), true
			}
		case "msg":
			if x, ok := d.(protoreflect.MessageDescriptor); ok {
				return attrsMsgVec(x), true
			}
		case "enum":
			if x, ok := d.(protoreflect.EnumDescriptor); ok {
				return attrsEnumVec(x), true
			}
		case "oneof":
			if x, ok := d.(protoreflect.OneofDescriptor); ok {
				return attrsOneofVec(x), true
			}
		case "mtd":
			if x, ok := d.(protoreflect.MethodDescriptor); ok {
				return attrsMethodVec(x), true
			}
		case "file":
			if x, ok := d.(protoreflect.FileDescriptor); ok {
				return attrsFileVec(x), true
			}
		}
		return "", false
	}
	lv, ok := vec(l)
	if !ok {
		return "bad-op"
	}
	rvec := "none"
	verdict := ""
	if w[0] == "fld" || w[0] == "dfl" {
		verdict = " rv=ok"
		if c := e.rv[name]; c != "" {
			verdict = " rv=" + c
			r = nil // the runtime saw a repaired field, not this one
		}
	}
	if r != nil {
		rvec, ok = vec(r)
		if !ok {
			return "bad-state runtime-element-kind"
		}
	}
	if w[0] == "dfl" && attrsOpaqueDefault(attrsKV(w[2:])) {
		if lv == rvec {
			return "same"
		}
		return "differ L " + lv + " R " + rvec + verdict
	}
	return "L " + lv + " R " + rvec + verdict
}

// attrsCamel: JSONName the runtime derives for a field named `name` when the proto has no json_name.
func attrsCamel(hexName string) string {
	name := string(UnHex(hexName))
	fdp := &descriptorpb.FileDescriptorProto{
		Name:   proto.String("camel.proto"),
		Syntax: proto.String("proto2"),
		MessageType: []*descriptorpb.DescriptorProto{{
			Name: proto.String("M"),
			Field: []*descriptorpb.FieldDescriptorProto{{
				Name:   proto.String(name),
				Number: proto.Int32(1),
				Label:  descriptorpb.FieldDescriptorProto_LABEL_OPTIONAL.Enum(),
				Type:   descriptorpb.FieldDescriptorProto_TYPE_INT32.Enum(),
			}},
		}},
	}
	f, err := protodesc.NewFile(fdp, nil)
	if err != nil {
		return "error"
	}
	return attrsHexS(f.Messages().Get(0).Fields().Get(0).JSONName())
}

// attrsEditionDefaults: the six feature defaults of an edition as protoutil reports them.
func attrsEditionDefaults(ed string) string {
	n, err := strconv.Atoi(ed)
	if err != nil {
		return "bad-op"
	}
	b := []byte("------")
	for i, name := range attrsFeatureNames {
		fd := attrsFSD.Fields().ByName(protoreflect.Name(name))
		v, err := protoutil.GetFeatureDefault(descriptorpb.Edition(n), fd)
		if err != nil {
			b[i] = '!'
			continue
		}
		b[i] = attrsFeatureLetter(i, int32(v.Enum()))
	}
	return string(b)
}

func (e *attrsEngine) Trivial(op, ans string) bool {
	return strings.HasPrefix(op, "src ") || op == "compile"
}

func (e *attrsEngine) Class(op, ans string) string {
	w := strings.Fields(op)
	c := w[0]
	if c == "fld" || c == "dfl" || c == "enum" || c == "msg" {
		kv := attrsKV(w[2:])
		c += ":" + kv["syn"]
		if c[:3] == "fld" && kv["ext"] == "1" {
			c += ":ext"
		}
	}
	if strings.HasPrefix(ans, "L ") {
		if i := strings.Index(ans, " R "); i > 0 && ans[2:i] != ans[i+3:] {
			c += ":L!=R"
		}
	}
	return c
}

// ---------------------------------------------------------------- facts (from protos only)

type attrsMsgInfo struct {
	file   string // path of the defining file
	md     *descriptorpb.DescriptorProto
	parent string // full name of the parent element (package for top level; "" if none)
}

type attrsEnumInfo struct {
	ed    *descriptorpb.EnumDescriptorProto
	chain string // own overrides outward to the file's
	fed   int    // edition of the defining file
}

type attrsIndex struct {
	msgs  map[string]*attrsMsgInfo
	enums map[string]*attrsEnumInfo
}

func attrsJoin(prefix, name string) string {
	if prefix == "" {
		return name
	}
	return prefix + "." + name
}

func (ix *attrsIndex) addFile(fdp *descriptorpb.FileDescriptorProto) {
	_, fed := attrsSyn(fdp)
	var walk func(prefix string, mds []*descriptorpb.DescriptorProto, chain []string)
	walk = func(prefix string, mds []*descriptorpb.DescriptorProto, chain []string) {
		for _, md := range mds {
			fqn := attrsJoin(prefix, md.GetName())
			ix.msgs[fqn] = &attrsMsgInfo{file: fdp.GetName(), md: md, parent: prefix}
			sub := append([]string{attrsOv(md.GetOptions().GetFeatures())}, chain...)
			for _, ed := range md.GetEnumType() {
				ix.enums[attrsJoin(fqn, ed.GetName())] = &attrsEnumInfo{ed: ed, fed: fed,
					chain: attrsChain(attrsOv(ed.GetOptions().GetFeatures()), sub, fdp)}
			}
			walk(fqn, md.GetNestedType(), sub)
		}
	}
	for _, ed := range fdp.GetEnumType() {
		ix.enums[attrsJoin(fdp.GetPackage(), ed.GetName())] = &attrsEnumInfo{ed: ed, fed: fed,
			chain: attrsChain(attrsOv(ed.GetOptions().GetFeatures()), nil, fdp)}
	}
	walk(fdp.GetPackage(), fdp.GetMessageType(), nil)
}

func attrsSyn(fdp *descriptorpb.FileDescriptorProto) (string, int) {
	switch fdp.GetSyntax() {
	case "proto3":
		return "3", 999
	case "editions":
		return "e", int(fdp.GetEdition())
	}
	return "2", 998
}

func attrsChain(own string, parents []string, file *descriptorpb.FileDescriptorProto) string {
	c := append([]string{own}, parents...)
	c = append(c, attrsOv(file.GetOptions().GetFeatures()))
	return strings.Join(c, "/")
}

func attrsEnumVals(ed *descriptorpb.EnumDescriptorProto) string {
	var vs []string
	for _, v := range ed.GetValue() {
		vs = append(vs, fmt.Sprintf("%s:%d", v.GetName(), v.GetNumber()))
	}
	return attrsDashIfEmpty(strings.Join(vs, ","))
}

// attrsFieldFacts renders the facts of one field or extension.
// parentFqn: full name of the enclosing element ("" for a top-level extension in a file without package);
// parentChain: override strings of the enclosing messages, innermost first.
func (ix *attrsIndex) fieldFacts(fdp *descriptorpb.FileDescriptorProto, fld *descriptorpb.FieldDescriptorProto,
	parentFqn string, parentMsg *descriptorpb.DescriptorProto, parentChain []string, withDefault bool) string {
	syn, ed := attrsSyn(fdp)
	var sb strings.Builder
	w := func(k, v string) { sb.WriteString(" " + k + "=" + v) }
	w("syn", syn)
	w("ed", strconv.Itoa(ed))
	w("name", fld.GetName())
	w("par", attrsDashIfEmpty(parentFqn))
	w("num", strconv.Itoa(int(fld.GetNumber())))
	w("label", strconv.Itoa(int(fld.GetLabel())))
	w("type", strconv.Itoa(int(fld.GetType())))
	oo := "-"
	if fld.OneofIndex != nil && parentMsg != nil && int(fld.GetOneofIndex()) < len(parentMsg.GetOneofDecl()) {
		oo = parentMsg.GetOneofDecl()[fld.GetOneofIndex()].GetName()
	}
	w("oneof", oo)
	ext := fld.GetExtendee() != ""
	w("ext", attrsB01(ext))
	extendee := strings.TrimPrefix(fld.GetExtendee(), ".")
	w("extendee", attrsDashIfEmpty(extendee))
	w("p3o", attrsB01(fld.GetProto3Optional()))
	pk := "-"
	if fld.GetOptions() != nil && fld.GetOptions().Packed != nil {
		pk = attrsB01(fld.GetOptions().GetPacked())
	}
	w("packed", pk)
	jn := "-"
	if fld.JsonName != nil {
		jn = "j" + attrsHexS(fld.GetJsonName())
	}
	w("jn", jn)
	w("hd", attrsB01(fld.DefaultValue != nil))
	w("fc", attrsChain(attrsOv(fld.GetOptions().GetFeatures()), parentChain, fdp))
	w("pme", attrsB01(parentMsg != nil && parentMsg.GetOptions().GetMapEntry()))
	tname := strings.TrimPrefix(fld.GetTypeName(), ".")
	tmsg, tenum, tme, tsf := "-", "-", false, false
	if mi, ok := ix.msgs[tname]; ok && tname != "" {
		tmsg = tname
		tme = mi.md.GetOptions().GetMapEntry()
		tsf = mi.file == fdp.GetName()
	} else if _, ok := ix.enums[tname]; ok && tname != "" {
		tenum = tname
	}
	w("tmsg", tmsg)
	w("tme", attrsB01(tme))
	w("tsf", attrsB01(tsf))
	w("tenum", tenum)
	// target enum: its own feature chain, the edition of its file, its first value's number
	tefc, teed, te0 := "-", "-", "-"
	if tenum != "-" {
		ei := ix.enums[tenum]
		tefc, teed = ei.chain, strconv.Itoa(ei.fed)
		if len(ei.ed.GetValue()) > 0 {
			te0 = strconv.Itoa(int(ei.ed.GetValue()[0].GetNumber()))
		}
	}
	w("tefc", tefc)
	w("teed", teed)
	w("te0", te0)
	// map fields: first number of the enum of the entry's value field
	mv0 := "-"
	if tme {
		for _, ef := range ix.msgs[tmsg].md.GetField() {
			if ef.GetNumber() == 2 {
				if ei, ok := ix.enums[strings.TrimPrefix(ef.GetTypeName(), ".")]; ok && ef.GetTypeName() != "" && len(ei.ed.GetValue()) > 0 {
					mv0 = strconv.Itoa(int(ei.ed.GetValue()[0].GetNumber()))
				}
			}
		}
	}
	w("mv0", mv0)
	ems := false
	if mi, ok := ix.msgs[extendee]; ok && ext {
		ems = mi.md.GetOptions().GetMessageSetWireFormat()
	}
	w("ems", attrsB01(ems))
	if withDefault {
		d := "-"
		if fld.DefaultValue != nil {
			d = "d" + attrsHexS(fld.GetDefaultValue())
		}
		w("def", d)
		ev := "-"
		if tenum != "-" {
			ev = attrsEnumVals(ix.enums[tenum].ed)
		}
		w("evals", ev)
	}
	return sb.String()[1:]
}

// attrsElementOps lists the element ops of one compiled file.
func (ix *attrsIndex) elementOps(fdp *descriptorpb.FileDescriptorProto) []string {
	var ops []string
	syn, ed := attrsSyn(fdp)
	se := "syn=" + syn + " ed=" + strconv.Itoa(ed)
	pkg := fdp.GetPackage()
	var deps []string
	pub := map[int32]bool{}
	for _, i := range fdp.GetPublicDependency() {
		pub[i] = true
	}
	for i, d := range fdp.GetDependency() {
		deps = append(deps, d+":"+attrsB01(pub[int32(i)]))
	}
	ops = append(ops, fmt.Sprintf("file %s pkg=%s %s deps=%s nm=%d ne=%d nx=%d ns=%d fc=%s", fdp.GetName(), attrsDashIfEmpty(pkg), se,
		attrsDashIfEmpty(strings.Join(deps, ",")), len(fdp.GetMessageType()), len(fdp.GetEnumType()), len(fdp.GetExtension()),
		len(fdp.GetService()), attrsOv(fdp.GetOptions().GetFeatures())))

	enumOp := func(prefix string, e *descriptorpb.EnumDescriptorProto, chain []string) {
		fqn := attrsJoin(prefix, e.GetName())
		var rr []string
		for _, r := range e.GetReservedRange() {
			rr = append(rr, fmt.Sprintf("%d:%d", r.GetStart(), r.GetEnd()))
		}
		ops = append(ops, fmt.Sprintf("enum %s %s name=%s fc=%s vals=%s rr=%s rn=%s", fqn, se, e.GetName(),
			attrsChain(attrsOv(e.GetOptions().GetFeatures()), chain, fdp), attrsEnumVals(e),
			attrsDashIfEmpty(strings.Join(rr, ",")), attrsDashIfEmpty(strings.Join(e.GetReservedName(), ","))))
	}
	fieldOps := func(prefix string, f *descriptorpb.FieldDescriptorProto, parent *descriptorpb.DescriptorProto, chain []string) {
		fqn := attrsJoin(prefix, f.GetName())
		ops = append(ops, "fld "+fqn+" "+ix.fieldFacts(fdp, f, prefix, parent, chain, false))
		ops = append(ops, "dfl "+fqn+" "+ix.fieldFacts(fdp, f, prefix, parent, chain, true))
	}
	var msgOps func(prefix string, md *descriptorpb.DescriptorProto, chain []string)
	msgOps = func(prefix string, md *descriptorpb.DescriptorProto, chain []string) {
		fqn := attrsJoin(prefix, md.GetName())
		own := attrsOv(md.GetOptions().GetFeatures())
		var fl, rr, xr []string
		for _, f := range md.GetField() {
			fl = append(fl, fmt.Sprintf("%d:%d:%s", f.GetNumber(), f.GetLabel(), attrsOv(f.GetOptions().GetFeatures())))
		}
		for _, r := range md.GetReservedRange() {
			rr = append(rr, fmt.Sprintf("%d:%d", r.GetStart(), r.GetEnd()))
		}
		for _, r := range md.GetExtensionRange() {
			xr = append(xr, fmt.Sprintf("%d:%d", r.GetStart(), r.GetEnd()))
		}
		ops = append(ops, fmt.Sprintf("msg %s %s name=%s fc=%s me=%s flds=%s rr=%s xr=%s rn=%s no=%d", fqn, se, md.GetName(),
			attrsChain(own, chain, fdp), attrsB01(md.GetOptions().GetMapEntry()), attrsDashIfEmpty(strings.Join(fl, ",")),
			attrsDashIfEmpty(strings.Join(rr, ",")), attrsDashIfEmpty(strings.Join(xr, ",")),
			attrsDashIfEmpty(strings.Join(md.GetReservedName(), ",")), len(md.GetOneofDecl())))
		sub := append([]string{own}, chain...)
		for _, f := range md.GetField() {
			fieldOps(fqn, f, md, sub)
		}
		for i, o := range md.GetOneofDecl() {
			var fs []string
			for _, f := range md.GetField() {
				if f.OneofIndex != nil && int(f.GetOneofIndex()) == i {
					fs = append(fs, f.GetName()+":"+attrsB01(f.GetProto3Optional()))
				}
			}
			ops = append(ops, fmt.Sprintf("oneof %s %s name=%s flds=%s", attrsJoin(fqn, o.GetName()), se, o.GetName(),
				attrsDashIfEmpty(strings.Join(fs, ","))))
		}
		for _, x := range md.GetExtension() {
			fieldOps(fqn, x, md, sub)
		}
		for _, e := range md.GetEnumType() {
			enumOp(fqn, e, sub)
		}
		for _, n := range md.GetNestedType() {
			msgOps(fqn, n, sub)
		}
	}
	for _, md := range fdp.GetMessageType() {
		msgOps(pkg, md, nil)
	}
	for _, e := range fdp.GetEnumType() {
		enumOp(pkg, e, nil)
	}
	for _, x := range fdp.GetExtension() {
		fieldOps(pkg, x, nil, nil)
	}
	for _, s := range fdp.GetService() {
		sfqn := attrsJoin(pkg, s.GetName())
		for _, m := range s.GetMethod() {
			ops = append(ops, fmt.Sprintf("mtd %s name=%s in=%s out=%s cs=%s ss=%s", attrsJoin(sfqn, m.GetName()), m.GetName(),
				strings.TrimPrefix(m.GetInputType(), "."), strings.TrimPrefix(m.GetOutputType(), "."),
				attrsB01(m.GetClientStreaming()), attrsB01(m.GetServerStreaming())))
		}
	}
	return ops
}

// attrsCase builds one case from sources: src ops, compile, element ops.
// If the compiler rejects the sources the case still contains `compile`
// (the model expects "ok", so a rejection shows up as a disagreement).
// attrsGenViews: whether attrsCase appends the view-walk ops (the generator switches it off for most of the
// near-identical systematic editions files in the quick tier).
var attrsGenViews = true

func attrsCase(srcs map[string]string, order []string, tolerant bool) []string {
	var c []string
	for _, p := range order {
		c = append(c, "src "+p+" "+attrsHexS(srcs[p]))
	}
	c = append(c, "compile")
	// run the case once here: facts are read off the compiled protos, the outcome of the view walk is
	// recorded in the view ops
	ge := &attrsEngine{noConc: true}
	ge.Reset()
	for _, p := range order {
		ge.Exec("src " + p + " " + attrsHexS(srcs[p]))
	}
	ge.Exec("compile")
	if ge.status == "compile-error" || ge.status == "" {
		if tolerant {
			return nil
		}
		return c
	}
	lfs := ge.lall
	ix := &attrsIndex{msgs: map[string]*attrsMsgInfo{}, enums: map[string]*attrsEnumInfo{}}
	seen := map[string]bool{}
	var addDeps func(f protoreflect.FileDescriptor)
	addDeps = func(f protoreflect.FileDescriptor) {
		if seen[f.Path()] {
			return
		}
		seen[f.Path()] = true
		if lf, ok := f.(linker.File); ok {
			ix.addFile(attrsProto(lf))
		} else {
			ix.addFile(protoutil.ProtoFromFileDescriptor(f))
		}
		for i := 0; i < f.Imports().Len(); i++ {
			addDeps(f.Imports().Get(i).FileDescriptor)
		}
	}
	for _, f := range lfs {
		addDeps(f)
	}
	for _, f := range lfs {
		c = append(c, ix.elementOps(attrsProto(f))...)
	}
	if ge.status == "ok" && attrsGenViews {
		c = append(c, ge.attrsViewOps()...)
	}
	return c
}

// ---------------------------------------------------------------- generator

// attrsGFeat: explicit feature overrides of one element, same letters as attrsOv.
type attrsGFeat [6]byte

func attrsGNoFeat() attrsGFeat { return attrsGFeat{'-', '-', '-', '-', '-', '-'} }

var attrsGFeatValueNames = [6]map[byte]string{
	{'E': "EXPLICIT", 'I': "IMPLICIT", 'L': "LEGACY_REQUIRED", 'U': "FIELD_PRESENCE_UNKNOWN"},
	{'O': "OPEN", 'C': "CLOSED", 'U': "ENUM_TYPE_UNKNOWN"},
	{'P': "PACKED", 'X': "EXPANDED", 'U': "REPEATED_FIELD_ENCODING_UNKNOWN"},
	{'V': "VERIFY", 'N': "NONE", 'U': "UTF8_VALIDATION_UNKNOWN"},
	{'L': "LENGTH_PREFIXED", 'D': "DELIMITED", 'U': "MESSAGE_ENCODING_UNKNOWN"},
	{'A': "ALLOW", 'B': "LEGACY_BEST_EFFORT", 'U': "JSON_FORMAT_UNKNOWN"},
}

// options renders the overrides as a list of `features.x = Y` strings.
func (f attrsGFeat) options() []string {
	var o []string
	for i, c := range f {
		if c != '-' {
			o = append(o, "features."+attrsFeatureNames[i]+" = "+attrsGFeatValueNames[i][c])
		}
	}
	return o
}

type attrsGType struct {
	name, fqn string
	isEnum    bool
	file      *attrsGFile
	parent    *attrsGType
	children  []*attrsGType
	// enums
	enumFeat byte // own enum_type override
	jsonFeat byte // own json_format override (messages and enums)
	nvals    int
	firstNum int
	// messages
	extRange bool
}

type attrsGFile struct {
	path, pkg, syntax string
	feat              attrsGFeat
	types             []*attrsGType
	imports           []*attrsGFile
	publicImport      bool
	needDescriptor    bool
}

func (f *attrsGFile) editions() bool { return f.syntax == "editions" }

// enumClosed: closedness as resolved by nearest override (what the linker reports).
func (t *attrsGType) enumClosed() bool {
	switch t.file.syntax {
	case "proto2":
		return true
	case "proto3":
		return false
	}
	c := t.enumFeat
	if c == '-' {
		c = t.file.feat[1]
	}
	// IsClosed: every resolved enum_type other than OPEN (the edition 2023 default), so also ENUM_TYPE_UNKNOWN
	return c == 'C' || c == 'U'
}

func (t *attrsGType) ref() string { return "." + t.fqn }

func (f *attrsGFile) allTypes() []*attrsGType {
	var out []*attrsGType
	var rec func(ts []*attrsGType)
	rec = func(ts []*attrsGType) {
		for _, t := range ts {
			out = append(out, t)
			rec(t.children)
		}
	}
	rec(f.types)
	return out
}

func (f *attrsGFile) visible() []*attrsGType {
	out := f.allTypes()
	for _, d := range f.imports {
		out = append(out, d.allTypes()...)
	}
	return out
}

// attrsGShape is one field declaration, abstractly.
type attrsGShape struct {
	label    string // "", "optional", "required", "repeated"
	typ      string // scalar name, "enum", "msg", "group", "map"
	enumOpen bool   // which kind of enum to reference
	oneof    bool
	ext      bool
	feat     attrsGFeat // field-level overrides (presence, rfe, utf8, menc only)
	packed   string     // "", "true", "false"
	def      bool
	jsonName bool
	mapKey   string
	mapVal   string // scalar name, "enum", "msg"
	likeGrp  bool   // editions: reference a sibling message whose lower-cased name is the field name
	weak     bool
	optExt   bool // proto3: extension of an options message
}

var attrsGScalars = []string{"double", "float", "int64", "uint64", "int32", "fixed64", "fixed32", "bool", "string",
	"bytes", "uint32", "sfixed32", "sfixed64", "sint32", "sint64"}
var attrsGMapKeys = []string{"int32", "int64", "uint32", "uint64", "sint32", "sint64", "fixed32", "fixed64", "sfixed32", "sfixed64", "bool", "string"}

func attrsGIsScalar(t string) bool {
	for _, s := range attrsGScalars {
		if s == t {
			return true
		}
	}
	return false
}

func attrsGPackable(t string) bool {
	return t == "enum" || (attrsGIsScalar(t) && t != "string" && t != "bytes")
}

// presence as the linker resolves it for a singular scalar/enum field that is
// not in a oneof and not an extension: 'E','I','L','U'.
func (f *attrsGFile) resolvedPresence(s attrsGShape) byte {
	switch f.syntax {
	case "proto2":
		return 'E'
	case "proto3":
		if s.label == "optional" {
			return 'E'
		}
		return 'I'
	}
	if s.feat[0] != '-' {
		return s.feat[0]
	}
	if f.feat[0] != '-' {
		return f.feat[0]
	}
	return 'E'
}

// hasPresence mirrors the rule "can this field carry a default / reference a closed enum".
func (f *attrsGFile) hasPresence(s attrsGShape) bool {
	if s.label == "repeated" || s.typ == "map" {
		return false
	}
	if s.ext || s.oneof || s.typ == "msg" || s.typ == "group" {
		return true
	}
	p := f.resolvedPresence(s)
	return p == 'E' || p == 'L'
}

// mapValueImplicit: the value field of a map entry has implicit presence
func (f *attrsGFile) mapValueImplicit() bool {
	switch f.syntax {
	case "proto2":
		return false
	case "proto3":
		return true
	}
	p := f.feat[0]
	return p == 'I' || p == 'U'
}

// valid says whether the compiler accepts shape s in file f (by the rules of
// parser/validate.go, linker/validate.go, options/options.go).
func (f *attrsGFile) valid(s attrsGShape) bool {
	ed := f.editions()
	// labels
	switch f.syntax {
	case "proto2":
		if s.typ == "map" || s.oneof {
			if s.label != "" {
				return false
			}
		} else if s.label == "" {
			return false
		}
	case "proto3":
		if s.label == "required" || s.typ == "group" {
			return false
		}
	case "editions":
		if s.label == "optional" || s.label == "required" || s.typ == "group" {
			return false
		}
	}
	if s.typ == "map" && (s.label != "" || s.oneof || s.ext) {
		return false
	}
	if s.oneof && (s.label != "" || s.ext) {
		return false
	}
	if s.ext && s.label == "required" {
		return false
	}
	if s.likeGrp && (s.typ != "msg" || !ed) {
		return false
	}
	if s.optExt != (s.ext && f.syntax == "proto3") {
		return false
	}
	// packed option
	if s.packed != "" {
		if ed {
			return false
		}
		if s.packed == "true" && (s.label != "repeated" || !attrsGPackable(s.typ)) {
			return false
		}
		if s.typ == "map" {
			return false
		}
	}
	// json_name
	if s.jsonName && s.ext {
		return false
	}
	if s.weak && (s.typ != "msg" || s.ext || s.oneof) {
		return false
	}
	// features
	if !ed && s.feat != attrsGNoFeat() {
		return false
	}
	if s.feat[1] != '-' || s.feat[5] != '-' {
		return false // enum_type / json_format cannot target fields
	}
	repeated := s.label == "repeated" || s.typ == "map"
	if s.feat[0] != '-' {
		if s.oneof || repeated || s.ext {
			return false
		}
		if s.typ == "msg" && s.feat[0] == 'I' {
			return false
		}
	}
	if s.feat[2] != '-' {
		if !repeated {
			return false
		}
		if s.feat[2] == 'P' && (s.typ == "map" || !attrsGPackable(s.typ)) {
			return false
		}
	}
	if s.feat[3] != '-' {
		if s.typ == "map" {
			if s.mapKey != "string" && s.mapVal != "string" {
				return false
			}
		} else if s.typ != "string" {
			return false
		}
	}
	if s.feat[4] != '-' && s.typ != "msg" {
		return false
	}
	// default
	if s.def {
		if f.syntax == "proto3" || repeated || s.typ == "msg" || s.typ == "group" || s.typ == "map" {
			return false
		}
		if !f.hasPresence(s) {
			return false
		}
	}
	// enums: closed enums need presence (or a list)
	if s.typ == "enum" && !s.enumOpen && !repeated && !f.hasPresence(s) {
		return false
	}
	if s.typ == "map" {
		ok := false
		for _, k := range attrsGMapKeys {
			ok = ok || k == s.mapKey
		}
		if !ok {
			return false
		}
		if s.mapVal == "enum" && !s.enumOpen && f.mapValueImplicit() {
			return false
		}
		if s.mapVal != "enum" && s.mapVal != "msg" && !attrsGIsScalar(s.mapVal) {
			return false
		}
	}
	return true
}

type attrsGGen struct {
	r       *Rand
	counter int
	extNum  map[string]int
	// risky: also produce inputs that protoc rejects but the compiler under test (currently) accepts:
	// *_UNKNOWN feature values, closed enums in proto3 fields, map values whose enum does not start at 0.
	// Cases made in this mode are dropped if the compiler rejects them.
	risky bool
}

// runtimeOK: shape s avoids the inputs described at attrsGGen.risky.
func (f *attrsGFile) runtimeOK(s attrsGShape) bool {
	for _, c := range s.feat {
		if c == 'U' {
			return false
		}
	}
	if f.syntax == "proto3" && !s.enumOpen && (s.typ == "enum" || (s.typ == "map" && s.mapVal == "enum")) {
		return false
	}
	return true
}

func (g *attrsGGen) ok(f *attrsGFile, s attrsGShape) bool {
	return f.valid(s) && (g.risky || f.runtimeOK(s))
}

func (g *attrsGGen) next() int { g.counter++; return g.counter }

var attrsGIntDefaults = map[string][]string{
	"int32":    {"0", "1", "-1", "2147483647", "-2147483648", "42", "0x7f", "-017"},
	"sint32":   {"0", "-5", "2147483647", "-2147483648"},
	"sfixed32": {"0", "7", "-2147483648"},
	"int64":    {"0", "9223372036854775807", "-9223372036854775808", "-7", "0xFFFF"},
	"sint64":   {"0", "-9223372036854775808", "12345678901"},
	"sfixed64": {"0", "9223372036854775807"},
	"uint32":   {"0", "4294967295", "7", "0xffffffff"},
	"fixed32":  {"0", "4294967295", "1"},
	"uint64":   {"0", "18446744073709551615", "9"},
	"fixed64":  {"0", "18446744073709551615", "0x10"},
}
var attrsGFloatDefaults = []string{"0", "1.5", "-2.25", "1e10", "1e40", "inf", "-inf", "nan", "3.4028235e38", "1e-45", "0.1", "-0.0", "16777217", "1.0000001", "3.4028236e38"}
var attrsGDoubleDefaults = []string{"0", "0.1", "1e308", "1e400", "inf", "-inf", "nan", "2.5e-320", "-1.7976931348623157e308", "123456789012345678"}
var attrsGStringDefaults = []string{`""`, `"abc"`, `"a\"b\\c\n"`, `"éx"`, `"x y"`, `"\001\xfe"`, `'q'`}
var attrsGBytesDefaults = []string{`""`, `"abc"`, `"\xff\x00\001"`, `"\\"`, `"a\"'b?"`, `"\?\a\b\f\v"`, `"é"`, `"\377\376z"`}

func (g *attrsGGen) defaultLiteral(s attrsGShape, en *attrsGType, pick int) string {
	p := func(xs []string) string { return xs[pick%len(xs)] }
	switch s.typ {
	case "enum":
		return fmt.Sprintf("%s_V%d", en.name, pick%en.nvals)
	case "bool":
		return p([]string{"true", "false"})
	case "float":
		return p(attrsGFloatDefaults)
	case "double":
		return p(attrsGDoubleDefaults)
	case "string":
		return p(attrsGStringDefaults)
	case "bytes":
		return p(attrsGBytesDefaults)
	}
	return p(attrsGIntDefaults[s.typ])
}

// pickType chooses a referenced type (enum or message) for the shape, or nil if none is available.
func (g *attrsGGen) pickType(f *attrsGFile, s attrsGShape, wantEnum bool, scope *attrsGType, pick int) *attrsGType {
	var cands []*attrsGType
	for _, t := range f.visible() {
		if t.isEnum != wantEnum {
			continue
		}
		if wantEnum && t.enumClosed() == s.enumOpen {
			continue
		}
		if wantEnum && !g.risky && s.typ == "map" && t.firstNum != 0 {
			continue
		}
		cands = append(cands, t)
	}
	if len(cands) == 0 {
		return nil
	}
	return cands[pick%len(cands)]
}

func (g *attrsGGen) fieldOptions(f *attrsGFile, s attrsGShape, en *attrsGType, pick int) string {
	var o []string
	if s.def {
		o = append(o, "default = "+g.defaultLiteral(s, en, pick))
	}
	if s.packed != "" {
		o = append(o, "packed = "+s.packed)
	}
	if s.jsonName {
		o = append(o, fmt.Sprintf(`json_name = "jn%d"`, g.next()))
	}
	if s.weak {
		o = append(o, "weak = true")
	}
	o = append(o, s.feat.options()...)
	if len(o) == 0 {
		return ""
	}
	return " [" + strings.Join(o, ", ") + "]"
}

// renderField returns the declaration text for shape s (possibly with a nested
// group or sibling message declaration), or "" if no suitable type exists.
func (g *attrsGGen) renderField(f *attrsGFile, scope *attrsGType, s attrsGShape, num int, pick int) string {
	id := g.next()
	name := fmt.Sprintf("f%d", id)
	label := s.label
	if label != "" {
		label += " "
	}
	var en *attrsGType
	typ := s.typ
	pre := ""
	switch s.typ {
	case "enum":
		en = g.pickType(f, s, true, scope, pick)
		if en == nil {
			return ""
		}
		typ = en.ref()
	case "msg":
		if s.likeGrp {
			// sibling message Lk<id>, field lk<id>
			if scope == nil {
				return ""
			}
			mn := fmt.Sprintf("Lk%d", id)
			name = strings.ToLower(mn)
			pre = "message " + mn + " { int32 z = 1; }\n"
			typ = "." + scope.fqn + "." + mn
		} else {
			m := g.pickType(f, s, false, scope, pick)
			if m == nil {
				return ""
			}
			typ = m.ref()
		}
	case "group":
		gn := fmt.Sprintf("G%d", id)
		inner := "optional int32 z = 1;"
		if pick%3 == 0 {
			inner += " required string y = 2;"
		}
		return fmt.Sprintf("%sgroup %s = %d%s { %s }", label, gn, num, g.fieldOptions(f, s, nil, pick), inner)
	case "map":
		v := s.mapVal
		if v == "enum" {
			en = g.pickType(f, s, true, scope, pick)
			if en == nil {
				return ""
			}
			v = en.ref()
		} else if v == "msg" {
			m := g.pickType(f, s, false, scope, pick)
			if m == nil {
				return ""
			}
			v = m.ref()
		}
		typ = fmt.Sprintf("map<%s, %s>", s.mapKey, v)
		en = nil
	}
	return pre + fmt.Sprintf("%s%s %s = %d%s;", label, typ, name, num, g.fieldOptions(f, s, en, pick))
}

// randomShape draws a shape that is valid in f (container: message body / oneof / extend).
func (g *attrsGGen) randomShape(f *attrsGFile, oneof, ext bool) attrsGShape {
	r := g.r
	for tries := 0; tries < 200; tries++ {
		s := attrsGShape{feat: attrsGNoFeat(), oneof: oneof, ext: ext, optExt: ext && f.syntax == "proto3"}
		switch f.syntax {
		case "proto2":
			s.label = Pick(r, []string{"optional", "optional", "required", "repeated"})
		case "proto3":
			s.label = Pick(r, []string{"", "", "optional", "repeated"})
		default:
			s.label = Pick(r, []string{"", "", "repeated"})
		}
		if oneof {
			s.label = ""
		}
		switch r.Intn(10) {
		case 0, 1, 2, 3:
			s.typ = Pick(r, attrsGScalars)
		case 4, 5:
			s.typ = "enum"
			s.enumOpen = r.Bool()
		case 6, 7:
			s.typ = "msg"
			s.likeGrp = r.Chance(1, 3)
		case 8:
			s.typ = "group"
		default:
			s.typ = "map"
			s.label = ""
			s.mapKey = Pick(r, attrsGMapKeys)
			s.mapVal = Pick(r, append([]string{"enum", "msg", "msg"}, attrsGScalars...))
			s.enumOpen = r.Bool()
		}
		if r.Chance(1, 4) {
			s.feat[0] = Pick(r, []byte{'E', 'I', 'L', 'L', 'U'})
		}
		if r.Chance(1, 4) {
			s.feat[2] = Pick(r, []byte{'P', 'X', 'U'})
		}
		if r.Chance(1, 4) {
			s.feat[3] = Pick(r, []byte{'V', 'N'})
		}
		if r.Chance(1, 3) {
			s.feat[4] = Pick(r, []byte{'L', 'D', 'D'})
		}
		if r.Chance(1, 5) {
			s.packed = Pick(r, []string{"true", "false"})
		}
		s.def = r.Chance(1, 3)
		s.jsonName = r.Chance(1, 8)
		s.weak = r.Chance(1, 30)
		if g.ok(f, s) {
			return s
		}
		// retry with fewer decorations: drop what does not apply
		s.feat = attrsGNoFeat()
		s.packed = ""
		s.def = false
		s.jsonName = false
		s.weak = false
		s.likeGrp = s.likeGrp && f.editions()
		if g.ok(f, s) {
			return s
		}
	}
	return attrsGShape{feat: attrsGNoFeat(), label: map[string]string{"proto2": "optional"}[f.syntax], typ: "int32", oneof: oneof, ext: ext,
		optExt: ext && f.syntax == "proto3"}
}

var attrsGOptionsMsgs = []string{"FileOptions", "MessageOptions", "FieldOptions", "EnumOptions", "EnumValueOptions", "ServiceOptions", "MethodOptions", "OneofOptions"}

// extendTarget picks an extendee visible from f and allocates a fresh number.
func (g *attrsGGen) extendTarget(f *attrsGFile) string {
	if f.syntax == "proto3" {
		f.needDescriptor = true
		return ".google.protobuf." + Pick(g.r, attrsGOptionsMsgs)
	}
	var cands []*attrsGType
	for _, t := range f.visible() {
		if !t.isEnum && t.extRange {
			cands = append(cands, t)
		}
	}
	if len(cands) == 0 || g.r.Chance(1, 6) {
		f.needDescriptor = true
		return ".google.protobuf." + Pick(g.r, attrsGOptionsMsgs)
	}
	return Pick(g.r, cands).ref()
}

func (g *attrsGGen) extNumber(extendee string) int {
	if g.extNum == nil {
		g.extNum = map[string]int{}
	}
	n, ok := g.extNum[extendee]
	if !ok {
		n = 20000
		if strings.HasPrefix(extendee, ".google.protobuf.") {
			n = 50000
		}
	}
	g.extNum[extendee] = n + 1
	return n
}

func (g *attrsGGen) renderExtend(f *attrsGFile, scope *attrsGType, shapes []attrsGShape) string {
	var sb strings.Builder
	// group consecutive shapes under one extendee each
	for _, s := range shapes {
		target := g.extendTarget(f)
		line := g.renderField(f, scope, s, g.extNumber(target), g.r.Intn(1000))
		if line == "" {
			continue
		}
		pre := ""
		if i := strings.LastIndex(line, "\n"); i >= 0 {
			pre, line = line[:i+1], line[i+1:]
		}
		sb.WriteString(pre + "extend " + target + " { " + line + " }\n")
	}
	return sb.String()
}

func (g *attrsGGen) reservedNames(f *attrsGFile, names ...string) string {
	var q []string
	for _, n := range names {
		if f.editions() {
			q = append(q, n)
		} else {
			q = append(q, `"`+n+`"`)
		}
	}
	return "reserved " + strings.Join(q, ", ") + ";"
}

// renderMessage renders message t with the given field shapes (nil: random).
func (g *attrsGGen) renderMessage(f *attrsGFile, t *attrsGType, shapes []attrsGShape, indent string) string {
	var sb strings.Builder
	sb.WriteString(indent + "message " + t.name + " {\n")
	in := indent + "  "
	if t.jsonFeat != '-' {
		sb.WriteString(in + "option features.json_format = " + attrsGFeatValueNames[5][t.jsonFeat] + ";\n")
	}
	num := 1
	nextNum := func() int {
		n := num
		num++
		if num == 19000 {
			num = 20000
		}
		return n
	}
	emit := func(text string) {
		for _, l := range strings.Split(strings.TrimRight(text, "\n"), "\n") {
			sb.WriteString(in + l + "\n")
		}
	}
	if shapes == nil {
		n := 1 + g.r.Intn(7)
		for i := 0; i < n; i++ {
			if g.r.Chance(1, 6) {
				// a oneof with 1..3 members
				on := fmt.Sprintf("o%d", g.next())
				var members []string
				for k, kn := 0, 1+g.r.Intn(3); k < kn; k++ {
					s := g.randomShape(f, true, false)
					if l := g.renderField(f, t, s, nextNum(), g.r.Intn(1000)); l != "" {
						members = append(members, l)
					}
				}
				if len(members) > 0 {
					var pre []string
					for k, m := range members {
						if j := strings.LastIndex(m, "\n"); j >= 0 {
							pre = append(pre, m[:j])
							members[k] = m[j+1:]
						}
					}
					for _, p := range pre {
						emit(p)
					}
					emit("oneof " + on + " {\n  " + strings.Join(members, "\n  ") + "\n}")
				}
				continue
			}
			s := g.randomShape(f, false, false)
			if l := g.renderField(f, t, s, nextNum(), g.r.Intn(1000)); l != "" {
				emit(l)
			}
		}
	} else {
		// systematic: plain fields first, then oneof members in groups of 3, then extensions
		var oneofs []attrsGShape
		for _, s := range shapes {
			if s.ext {
				continue
			}
			if s.oneof {
				oneofs = append(oneofs, s)
				continue
			}
			if l := g.renderField(f, t, s, nextNum(), g.next()); l != "" {
				emit(l)
			}
		}
		for i := 0; i < len(oneofs); i += 3 {
			var members, pre []string
			for _, s := range oneofs[i:min(i+3, len(oneofs))] {
				l := g.renderField(f, t, s, nextNum(), g.next())
				if l == "" {
					continue
				}
				if j := strings.LastIndex(l, "\n"); j >= 0 {
					pre = append(pre, l[:j])
					l = l[j+1:]
				}
				members = append(members, l)
			}
			for _, p := range pre {
				emit(p)
			}
			if len(members) > 0 {
				emit(fmt.Sprintf("oneof o%d {\n  %s\n}", g.next(), strings.Join(members, "\n  ")))
			}
		}
	}
	if t.extRange {
		emit("extensions 20000 to 20999, 30000 to max;")
	}
	if shapes == nil && g.r.Chance(1, 4) {
		emit("reserved 300 to 310, 320;")
		emit(g.reservedNames(f, fmt.Sprintf("zz%d", g.next()), "yy"))
	}
	for _, c := range t.children {
		if c.isEnum {
			emit(g.renderEnum(f, c, ""))
		} else {
			emit(g.renderMessage(f, c, nil, ""))
		}
	}
	if shapes == nil && g.r.Chance(1, 5) {
		emit(g.renderExtend(f, t, []attrsGShape{g.randomShape(f, false, true)}))
	} else if shapes != nil {
		var xs []attrsGShape
		for _, s := range shapes {
			if s.ext {
				xs = append(xs, s)
			}
		}
		if len(xs) > 0 {
			emit(g.renderExtend(f, t, xs))
		}
	}
	sb.WriteString(indent + "}\n")
	return sb.String()
}

func (g *attrsGGen) renderEnum(f *attrsGFile, t *attrsGType, indent string) string {
	var sb strings.Builder
	sb.WriteString(indent + "enum " + t.name + " {\n")
	if t.enumFeat != '-' {
		sb.WriteString(indent + "  option features.enum_type = " + attrsGFeatValueNames[1][t.enumFeat] + ";\n")
	}
	if t.jsonFeat != '-' {
		sb.WriteString(indent + "  option features.json_format = " + attrsGFeatValueNames[5][t.jsonFeat] + ";\n")
	}
	for i := 0; i < t.nvals; i++ {
		n := t.firstNum + i*3
		if i > 0 && i == t.nvals-1 && t.nvals > 2 {
			n = -4
		}
		sb.WriteString(fmt.Sprintf("%s  %s_V%d = %d;\n", indent, t.name, i, n))
	}
	if t.nvals%2 == 0 {
		sb.WriteString(indent + "  reserved 100 to 110, 200, 500 to max;\n")
		sb.WriteString(indent + "  " + g.reservedNames(f, t.name+"_OLD") + "\n")
	}
	sb.WriteString(indent + "}\n")
	return sb.String()
}

// planTypes invents the type tree of a file.
func (g *attrsGGen) planTypes(f *attrsGFile, nMsgs, nEnums, depth int) {
	var mk func(parent *attrsGType, prefix string, depth int) []*attrsGType
	mkEnum := func(parent *attrsGType, prefix string) *attrsGType {
		t := &attrsGType{name: fmt.Sprintf("E%d", g.next()), isEnum: true, file: f, parent: parent, enumFeat: '-', jsonFeat: '-'}
		t.fqn = attrsJoin(prefix, t.name)
		t.nvals = 1 + g.r.Intn(4)
		if f.editions() {
			if g.r.Chance(1, 2) {
				t.enumFeat = Pick(g.r, []byte{'O', 'C', 'C'})
				if g.risky && g.r.Chance(1, 4) {
					t.enumFeat = 'U'
				}
			}
			if g.r.Chance(1, 6) {
				t.jsonFeat = Pick(g.r, []byte{'A', 'B'})
			}
		}
		if t.enumClosed() && g.r.Chance(1, 2) {
			t.firstNum = 1 + g.r.Intn(5)
		}
		return t
	}
	mk = func(parent *attrsGType, prefix string, depth int) []*attrsGType {
		var out []*attrsGType
		nm, ne := 1+g.r.Intn(nMsgs), g.r.Intn(nEnums+1)
		if parent != nil {
			nm, ne = g.r.Intn(3), g.r.Intn(2)
		}
		for i := 0; i < nm; i++ {
			t := &attrsGType{name: fmt.Sprintf("M%d", g.next()), file: f, parent: parent, enumFeat: '-', jsonFeat: '-'}
			t.fqn = attrsJoin(prefix, t.name)
			t.extRange = f.syntax != "proto3" && g.r.Chance(1, 2)
			if f.editions() && g.r.Chance(1, 4) {
				t.jsonFeat = Pick(g.r, []byte{'A', 'B'})
			}
			if depth > 0 {
				t.children = mk(t, t.fqn, depth-1)
			}
			out = append(out, t)
		}
		for i := 0; i < ne; i++ {
			out = append(out, mkEnum(parent, prefix))
		}
		return out
	}
	f.types = mk(nil, f.pkg, depth)
}

func (g *attrsGGen) header(f *attrsGFile) string {
	var sb strings.Builder
	if f.editions() {
		sb.WriteString("edition = \"2023\";\n")
	} else {
		sb.WriteString("syntax = \"" + f.syntax + "\";\n")
	}
	if f.pkg != "" {
		sb.WriteString("package " + f.pkg + ";\n")
	}
	return sb.String()
}

func (g *attrsGGen) imports(f *attrsGFile) string {
	var sb strings.Builder
	for _, d := range f.imports {
		kw := ""
		if f.publicImport {
			kw = "public "
		}
		sb.WriteString("import " + kw + "\"" + d.path + "\";\n")
	}
	if f.needDescriptor {
		sb.WriteString("import \"google/protobuf/descriptor.proto\";\n")
	}
	for _, o := range f.feat.options() {
		sb.WriteString("option " + o + ";\n")
	}
	return sb.String()
}

// renderFile renders a random file over its planned types.
func (g *attrsGGen) renderFile(f *attrsGFile, service bool) string {
	var body strings.Builder
	for _, t := range f.types {
		if t.isEnum {
			body.WriteString(g.renderEnum(f, t, ""))
		} else {
			body.WriteString(g.renderMessage(f, t, nil, ""))
		}
	}
	for i, n := 0, g.r.Intn(3); i < n; i++ {
		body.WriteString(g.renderExtend(f, nil, []attrsGShape{g.randomShape(f, false, true)}))
	}
	if service {
		var msgs []*attrsGType
		for _, t := range f.visible() {
			if !t.isEnum {
				msgs = append(msgs, t)
			}
		}
		if len(msgs) > 0 {
			body.WriteString(fmt.Sprintf("service S%d {\n", g.next()))
			for i, n := 0, 1+g.r.Intn(3); i < n; i++ {
				cs, ss := "", ""
				if g.r.Bool() {
					cs = "stream "
				}
				if g.r.Bool() {
					ss = "stream "
				}
				body.WriteString(fmt.Sprintf("  rpc R%d(%s%s) returns (%s%s);\n", g.next(), cs, Pick(g.r, msgs).ref(), ss, Pick(g.r, msgs).ref()))
			}
			body.WriteString("}\n")
		}
	}
	return g.header(f) + g.imports(f) + body.String()
}

func (g *attrsGGen) randomFileFeat() attrsGFeat {
	ft := g.randomFileFeat0()
	if !g.risky {
		for i, c := range ft {
			if c == 'U' {
				ft[i] = '-'
			}
		}
	}
	return ft
}

func (g *attrsGGen) randomFileFeat0() attrsGFeat {
	ft := attrsGNoFeat()
	r := g.r
	if r.Chance(1, 2) {
		ft[0] = Pick(r, []byte{'E', 'I', 'I', 'U'})
	}
	if r.Chance(1, 2) {
		ft[1] = Pick(r, []byte{'O', 'C', 'C', 'C', 'U'})
	}
	if r.Chance(1, 2) {
		ft[2] = Pick(r, []byte{'P', 'X', 'X', 'U'})
	}
	if r.Chance(1, 3) {
		ft[3] = Pick(r, []byte{'V', 'N', 'N', 'U'})
	}
	if r.Chance(1, 2) {
		ft[4] = Pick(r, []byte{'L', 'D', 'D', 'D', 'U'})
	}
	if r.Chance(1, 3) {
		ft[5] = Pick(r, []byte{'A', 'B', 'U'})
	}
	return ft
}

// randomCase: a dependency file and a main file importing it.
func (g *attrsGGen) randomCase() []string {
	g.extNum = nil
	mkFile := func(path string) *attrsGFile {
		f := &attrsGFile{path: path, syntax: Pick(g.r, []string{"proto2", "proto3", "editions", "editions"}), feat: attrsGNoFeat()}
		if !g.r.Chance(1, 8) {
			f.pkg = fmt.Sprintf("p%d", g.r.Intn(3))
			if g.r.Chance(1, 4) {
				f.pkg += ".q"
			}
		}
		if f.editions() {
			f.feat = g.randomFileFeat()
		}
		return f
	}
	srcs := map[string]string{}
	var order []string
	var dep *attrsGFile
	if g.r.Chance(2, 3) {
		dep = mkFile("dep.proto")
		g.planTypes(dep, 2, 2, 1)
		srcs[dep.path] = g.renderFile(dep, false)
		order = append(order, dep.path)
	}
	main := mkFile("main.proto")
	if dep != nil {
		main.imports = []*attrsGFile{dep}
		main.publicImport = g.r.Chance(1, 4)
		if dep.pkg == main.pkg && dep.pkg == "" {
			main.pkg = "pm"
		}
	}
	g.planTypes(main, 3, 2, 2)
	srcs[main.path] = g.renderFile(main, g.r.Chance(1, 3))
	order = append(order, main.path)
	return attrsCase(srcs, order, g.risky)
}

// systematicShapes enumerates the valid shapes of file f over a representative type set.
func (g *attrsGGen) systematicShapes(f *attrsGFile, full bool) []attrsGShape {
	types := []string{"int32", "string", "bytes", "bool", "float", "uint64", "enum", "msg", "group", "map"}
	if full {
		types = append(append([]string{}, attrsGScalars...), "enum", "msg", "group", "map")
	}
	type mapKV struct{ k, v string }
	maps := []mapKV{{"string", "int32"}, {"int32", "msg"}, {"bool", "enum"}, {"uint64", "string"}}
	var out []attrsGShape
	seen := map[attrsGShape]bool{}
	add := func(s attrsGShape) {
		if !seen[s] && g.ok(f, s) {
			seen[s] = true
			out = append(out, s)
		}
	}
	for _, label := range []string{"", "optional", "required", "repeated"} {
		for _, typ := range types {
			for _, place := range []int{0, 1, 2} { // plain, oneof, extension
				for _, enumOpen := range []bool{true, false} {
					if typ != "enum" && typ != "map" && !enumOpen {
						continue
					}
					for _, like := range []bool{false, true} {
						if like && typ != "msg" {
							continue
						}
						base := attrsGShape{label: label, typ: typ, enumOpen: enumOpen, oneof: place == 1, ext: place == 2,
							feat: attrsGNoFeat(), likeGrp: like, optExt: place == 2 && f.syntax == "proto3"}
						var bases []attrsGShape
						if typ == "map" {
							for _, kv := range maps {
								b := base
								b.mapKey, b.mapVal = kv.k, kv.v
								bases = append(bases, b)
							}
						} else {
							bases = []attrsGShape{base}
						}
						for _, b := range bases {
							add(b)
							for _, d := range []bool{false, true} {
								for _, pk := range []string{"", "true", "false"} {
									s := b
									s.def, s.packed = d, pk
									add(s)
								}
							}
							if !f.editions() {
								continue
							}
							for _, p := range []byte{'-', 'E', 'I', 'L', 'U'} {
								if p == 'U' && !g.risky {
									continue
								}
								for _, x := range []byte{'-', 'P', 'X'} {
									for _, u := range []byte{'-', 'V', 'N'} {
										for _, m := range []byte{'-', 'L', 'D'} {
											n := 0
											for _, c := range []byte{p, x, u, m} {
												if c != '-' {
													n++
												}
											}
											if n > 2 && !full {
												continue
											}
											for _, d := range []bool{false, true} {
												s := b
												s.feat = attrsGFeat{p, '-', x, u, m, '-'}
												s.def = d
												add(s)
											}
										}
									}
								}
							}
						}
					}
				}
			}
		}
	}
	return out
}

// systematicCase: one file of syntax syn with file-level overrides ft whose
// single big message lists every valid shape; a proto2 dependency supplies a
// closed enum, an open (proto3) one comes from a second dependency.
func (g *attrsGGen) systematicCase(syn string, ft attrsGFeat, full bool) []string {
	g.extNum = nil
	dep2 := &attrsGFile{path: "dep2.proto", pkg: "d2", syntax: "proto2", feat: attrsGNoFeat()}
	dep2.types = []*attrsGType{
		{name: "DC", fqn: "d2.DC", isEnum: true, file: dep2, nvals: 2, firstNum: 1, enumFeat: '-', jsonFeat: '-'},
		{name: "DM", fqn: "d2.DM", file: dep2, extRange: true, enumFeat: '-', jsonFeat: '-'},
	}
	dep3 := &attrsGFile{path: "dep3.proto", pkg: "d3", syntax: "proto3", feat: attrsGNoFeat()}
	dep3.types = []*attrsGType{
		{name: "DO", fqn: "d3.DO", isEnum: true, file: dep3, nvals: 3, enumFeat: '-', jsonFeat: '-'},
		{name: "DN", fqn: "d3.DN", file: dep3, enumFeat: '-', jsonFeat: '-'},
	}
	f := &attrsGFile{path: "main.proto", pkg: "s", syntax: syn, feat: ft, imports: []*attrsGFile{dep2, dep3}}
	big := &attrsGType{name: "Big", fqn: "s.Big", file: f, extRange: syn != "proto3", enumFeat: '-', jsonFeat: '-'}
	eo := &attrsGType{name: "EO", fqn: "s.EO", isEnum: true, file: f, nvals: 2, enumFeat: '-', jsonFeat: '-'}
	ec := &attrsGType{name: "EC", fqn: "s.EC", isEnum: true, file: f, nvals: 2, enumFeat: '-', jsonFeat: '-'}
	if f.editions() {
		eo.enumFeat, ec.enumFeat = 'O', 'C'
		ec.firstNum = 2
	}
	en := &attrsGType{name: "EN", fqn: "s.Big.EN", isEnum: true, file: f, parent: big, nvals: 3, enumFeat: '-', jsonFeat: '-'}
	big.children = []*attrsGType{en}
	f.types = []*attrsGType{big, eo, ec}
	shapes := g.systematicShapes(f, full)
	srcs := map[string]string{}
	srcs[dep2.path] = g.header(dep2) + g.renderEnum(dep2, dep2.types[0], "") + "message DM { optional int32 a = 1; extensions 20000 to 20999, 30000 to max; }\n"
	srcs[dep3.path] = g.header(dep3) + g.renderEnum(dep3, dep3.types[0], "") + "message DN { int32 a = 1; }\n"
	body := g.renderMessage(f, big, shapes, "") + g.renderEnum(f, eo, "") + g.renderEnum(f, ec, "")
	srcs[f.path] = g.header(f) + g.imports(f) + body
	return attrsCase(srcs, []string{dep2.path, dep3.path, f.path}, g.risky)
}

// attrsGroupLikeCases: directed family for TextName / looksLikeGroup / isGroupLike. Delimited message
// fields (field-level feature, file-level default) and proto2 groups whose name equals / differs from the
// lower-cased simple name of the message type, with the type declared as a sibling of the field (the only
// true group-like placement), one and two levels deeper inside the field's parent, in the parent's parent,
// at top level, in another message, in an imported file (same and different package); as message fields,
// oneof members, repeated fields and extensions (in a message scope and at file level).
func attrsGroupLikeCases() [][]string {
	var cases [][]string
	for _, pkg := range []string{"g", "", "g.h"} {
		for _, fileLevel := range []bool{false, true} {
			d := " [features.message_encoding = DELIMITED]"
			fileOpt := ""
			if fileLevel {
				d = ""
				fileOpt = "option features.message_encoding = DELIMITED;\n"
			}
			pk, dot := "", "."
			if pkg != "" {
				pk = "package " + pkg + ";\n"
				dot = "." + pkg + "."
			}
			dep := "edition = \"2023\";\n" + pk + "message Imp { message Deep {} }\nmessage Lonely {}\n"
			depOther := "edition = \"2023\";\npackage gd;\nmessage Far {}\n"
			var b strings.Builder
			b.WriteString("edition = \"2023\";\n" + pk + "import \"gldep.proto\";\nimport \"glfar.proto\";\n" + fileOpt)
			b.WriteString("message Top {}\nmessage Tx {}\nmessage Other { message Elsewhere {} message Sib {} }\n")
			b.WriteString("message Outer {\n  message Up {}\n  message Mid {\n    message Sib {}\n")
			b.WriteString("    message In1 { message One {} message In2 { message Two {} } }\n")
			type fl struct{ typ, name string }
			fields := []fl{
				{"Sib", "sib"}, {"Sib", "sibx"}, {"Sib", "Sib_"},
				{"In1.One", "one"}, {"In1.One", "onex"},
				{"In1.In2.Two", "two"}, {"In1.In2.Two", "twox"},
				{"In1", "in1"}, {"In1.In2", "in2"},
				{"Up", "up"}, {"Up", "upx"},
				{dot + "Top", "top"}, {dot + "Top", "topx"},
				{dot + "Other.Elsewhere", "elsewhere"}, {dot + "Other.Sib", "sib2"},
				{dot + "Imp", "imp"}, {dot + "Imp.Deep", "deep"}, {dot + "Lonely", "lonely"},
				{".gd.Far", "far"}, {dot + "Outer.Mid", "mid"}, {dot + "Outer", "outer"},
			}
			n := 1
			for _, f := range fields {
				b.WriteString(fmt.Sprintf("    %s %s = %d%s;\n", f.typ, f.name, n, d))
				n++
			}
			// repeated and oneof members
			b.WriteString(fmt.Sprintf("    message Rep {}\n    repeated Rep rep = %d%s;\n", n, d))
			n++
			b.WriteString(fmt.Sprintf("    message Oo {}\n    oneof choice { Oo oo = %d%s; In1.One one2 = %d%s; %sOther.Sib sib3 = %d%s; }\n", n, d, n+1, d, dot, n+2, d))
			n += 3
			// a map is never delimited
			b.WriteString(fmt.Sprintf("    map<string, Sib> sibmap = %d;\n", n))
			b.WriteString("    extensions 100 to 199;\n")
			// extensions declared inside Mid: scope is Mid
			b.WriteString(fmt.Sprintf("    message Xs {}\n    message In3 { message Exd {} }\n    extend %sOuter.Mid { Xs xs = 100%s; In3.Exd exd = 101%s; %sTx tx = 102%s; }\n", dot, d, d, dot, d))
			b.WriteString("  }\n")
			// fields and extensions declared in Outer: scope is Outer
			b.WriteString(fmt.Sprintf("  Up up = 1%s;\n  Mid mid = 2%s;\n  Mid.Sib sib = 3%s;\n  Mid.In1.One one = 4%s;\n", d, d, d, d))
			b.WriteString(fmt.Sprintf("  message Ue {}\n  extend Mid { Up up2 = 110%s; Ue ue = 111%s; Mid.Xs xs = 112%s; repeated Mid.In1.In2.Two two = 113%s; }\n", d, d, d, d))
			b.WriteString("}\n")
			// file-level extensions: scope is the package
			b.WriteString(fmt.Sprintf("extend Outer.Mid { Top top = 120%s; Top topx = 121%s; Other.Elsewhere elsewhere = 122%s; Outer.Mid.Sib sib = 123%s; Imp imp = 124%s; Lonely lonely = 125%s; .gd.Far far = 126%s; }\n", d, d, d, d, d, d, d))
			// top-level message fields: scope is the package
			b.WriteString(fmt.Sprintf("message Flat { Top top = 1%s; Other.Elsewhere elsewhere = 2%s; Imp imp = 3%s; Lonely lonely = 4%s; Outer.Up up = 5%s; Flat flat = 6%s; }\n", d, d, d, d, d, d))
			srcs := map[string]string{"gldep.proto": dep, "glfar.proto": depOther, "gl.proto": b.String()}
			cases = append(cases, attrsCase(srcs, []string{"gldep.proto", "glfar.proto", "gl.proto"}, false))
		}
		// proto2: real groups (always siblings) next to plain message fields with group-shaped names
		pk, dot := "", "."
		if pkg != "" {
			pk = "package " + pkg + ";\n"
			dot = "." + pkg + "."
		}
		p2 := "syntax = \"proto2\";\n" + pk +
			"message Top {}\n" +
			"message Outer {\n  message Up {}\n  message Mid {\n    message Sib {}\n    message In1 { message One {} }\n" +
			"    optional group Grp = 1 { optional int32 z = 1; optional group Inner = 2 { optional int32 z = 1; } }\n" +
			"    repeated group Rg = 2 { optional int32 z = 1; }\n" +
			"    optional Sib sib = 3;\n    optional In1.One one = 4;\n    optional Up up = 5;\n    optional " + dot + "Top top = 6;\n" +
			"    optional Grp grp2 = 7;\n    optional Grp.Inner inner = 8;\n" +
			"    oneof choice { group Og = 9 { optional int32 z = 1; } Sib sib2 = 10; }\n" +
			"    extensions 100 to 199;\n" +
			"    extend " + dot + "Outer.Mid { optional group Xg = 100 { optional int32 z = 1; } optional Sib xsib = 101; }\n" +
			"  }\n" +
			"  extend Mid { optional group Og2 = 110 { optional int32 z = 1; } optional Up up = 111; }\n" +
			"}\n" +
			"extend Outer.Mid { optional group Fg = 120 { optional int32 z = 1; } optional Top top = 121; repeated group Frg = 122 { optional int32 z = 1; } }\n"
		cases = append(cases, attrsCase(map[string]string{"gl2.proto": p2}, []string{"gl2.proto"}, false))
	}
	return cases
}

// attrsGroupLikeNameCases: directed family for the NAME test of group-likeness. The runtime's isGroupLike
// wants the field name to be exactly the lower-cased message name; here the two names match exactly, match
// only when case is ignored, contain digits / underscores, or do not match, for delimited fields (feature on
// the field, inherited from the file) of edition 2023 and for proto2 groups and plain proto2 message fields,
// with the type in the field's scope, in a sibling message, nested deeper, or in another file, as plain field,
// repeated field, oneof member and extension.
func attrsGroupLikeNameCases() [][]string {
	pairs := [][2]string{ // field name, type name
		{"item", "Item"}, {"iTem", "Item"}, {"ITEM", "Item"}, {"item", "ITEM"}, {"Item", "ITEM"}, {"iTEM", "ITEM"},
		{"item_1", "Item_1"}, {"iTEM_1", "Item_1"}, {"item1", "Item1"}, {"iTem1", "Item1"}, {"ITEM1", "Item1"},
		{"data", "DATA"}, {"Data", "DATA"}, {"dATA", "Data"},
		{"other", "Item"}, {"items", "Item"}, {"ite", "Item"}, {"item_", "Item"}, {"_item", "Item"},
	}
	types := []string{"Item", "ITEM", "Item_1", "Item1", "DATA", "Data"}
	var cases [][]string
	var dep strings.Builder
	dep.WriteString("edition = \"2023\";\npackage gdn;\n")
	for _, t := range types {
		dep.WriteString("message " + t + " {}\n")
	}
	for _, fileLevel := range []bool{false, true} {
		d := " [features.message_encoding = DELIMITED]"
		opt := ""
		if fileLevel {
			d, opt = "", "option features.message_encoding = DELIMITED;\n"
		}
		var b strings.Builder
		b.WriteString("edition = \"2023\";\npackage gn;\nimport \"gndep.proto\";\n" + opt)
		b.WriteString("message Holder {")
		for _, t := range types {
			b.WriteString(" message " + t + " {}")
		}
		b.WriteString(" }\nmessage Ext { extensions 1 to max; }\n")
		xn := 1
		for i, p := range pairs {
			f, t := p[0], p[1]
			// type in the field's own scope: plain, repeated, oneof member, extension
			b.WriteString(fmt.Sprintf("message A%d { message %s {} %s %s = 1%s; }\n", i, t, t, f, d))
			b.WriteString(fmt.Sprintf("message B%d { message %s {} repeated %s %s = 1%s; }\n", i, t, t, f, d))
			b.WriteString(fmt.Sprintf("message C%d { message %s {} oneof o { %s %s = 1%s; int32 z = 2; } }\n", i, t, t, f, d))
			b.WriteString(fmt.Sprintf("message D%d { message %s {} extend Ext { %s %s = %d%s; } }\n", i, t, t, f, xn, d))
			xn++
			// type elsewhere: sibling message, nested deeper, other file
			b.WriteString(fmt.Sprintf("message E%d { Holder.%s %s = 1%s; }\n", i, t, f, d))
			b.WriteString(fmt.Sprintf("message F%d { message In { message %s {} } In.%s %s = 1%s; oneof o { In.%s %s_2 = 2%s; } }\n", i, t, t, f, d, t, f, d))
			b.WriteString(fmt.Sprintf("message G%d { .gdn.%s %s = 1%s; message X { extend Ext { .gdn.%s %s = %d%s; } } }\n", i, t, f, d, t, f, xn, d))
			xn++
		}
		cases = append(cases, attrsCase(map[string]string{"gndep.proto": dep.String(), "gn.proto": b.String()},
			[]string{"gndep.proto", "gn.proto"}, false))
	}
	// proto2: real groups (the parser derives the field name), and plain message fields with group-shaped names
	var p2 strings.Builder
	p2.WriteString("syntax = \"proto2\";\npackage gn2;\nmessage Ext { extensions 1 to max; }\n")
	for i, t := range []string{"Item", "ITEM", "Item_1", "Item1", "DATA", "I"} {
		p2.WriteString(fmt.Sprintf("message A%d { optional group %s = 1 { optional int32 z = 1; } }\n", i, t))
		p2.WriteString(fmt.Sprintf("message B%d { repeated group %s = 1 { optional int32 z = 1; } }\n", i, t))
		p2.WriteString(fmt.Sprintf("message C%d { oneof o { group %s = 1 { optional int32 z = 1; } int32 y = 2; } }\n", i, t))
		p2.WriteString(fmt.Sprintf("message D%d { extend Ext { optional group %s = %d { optional int32 z = 1; } } }\n", i, t, i+1))
	}
	for i, p := range pairs {
		p2.WriteString(fmt.Sprintf("message P%d { message %s {} optional %s %s = 1; oneof o { %s %s_2 = 2; } }\n", i, p[1], p[1], p[0], p[1], p[0]))
	}
	cases = append(cases, attrsCase(map[string]string{"gn2.proto": p2.String()}, []string{"gn2.proto"}, false))
	return cases
}

func (e *attrsEngine) Gen(r *Rand, tier string) [][]string {
	g := &attrsGGen{r: r}
	var cases [][]string
	thorough := tier == "thorough"
	// 0. model validation ops: edition defaults, JSON camel-casing
	var pre []string
	for _, ed := range []int{900, 998, 999, 1000, 1001, 9999} {
		pre = append(pre, fmt.Sprintf("dflt %d", ed))
	}
	for _, n := range []string{"a", "foo_bar", "foo__bar", "_foo", "foo_", "foo_Bar", "foo_1x", "fooBar", "f_o_o", "x_y_z_", "__", "a1_b2"} {
		pre = append(pre, "camel "+attrsHexS(n))
	}
	for i := 0; i < 40; i++ {
		alpha := "ab_XY1_"
		b := []byte{"ab_XY"[r.Intn(5)]}
		for j, n := 0, r.Intn(8); j < n; j++ {
			b = append(b, alpha[r.Intn(len(alpha))])
		}
		pre = append(pre, "camel "+Hex(b))
	}
	for _, p := range pre {
		cases = append(cases, []string{p})
	}
	// 0b. minimal witnesses of the known disagreements, first, so that a failure is reported on a tiny case
	cases = append(cases, attrsCase(map[string]string{"w1.proto": "edition = \"2023\";\nmessage M { int32 a = 1 [features.field_presence = LEGACY_REQUIRED]; int32 b = 2; }\n"},
		[]string{"w1.proto"}, false))
	for _, w := range []map[string]string{
		{"w2.proto": "edition = \"2023\";\nenum E { option features.enum_type = ENUM_TYPE_UNKNOWN; A = 0; }\n"},
		{"w3dep.proto": "syntax = \"proto2\";\nenum E { A = 0; }\n",
			"w3.proto": "syntax = \"proto3\";\nimport \"w3dep.proto\";\nmessage M { repeated E e = 1; }\n"},
		{"w4.proto": "syntax = \"proto2\";\nenum E { A = 1; }\nmessage M { map<int32, E> m = 1; }\n"},
	} {
		var order []string
		for p := range w {
			order = append(order, p)
		}
		sort.Strings(order)
		sort.SliceStable(order, func(i, j int) bool { return strings.Contains(order[i], "dep") && !strings.Contains(order[j], "dep") })
		if c := attrsCase(w, order, true); c != nil {
			cases = append(cases, c)
		}
	}
	cases = append(cases, attrsCase(map[string]string{"w5.proto": "syntax = \"proto2\";\npackage a.b;\nmessage M { oneof o { group G = 1 { optional int32 z = 1; } int32 i = 2; } optional M m = 3 [weak = true]; }\n"},
		[]string{"w5.proto"}, false))
	// 0e. many messages with many required fields (first observed concurrently)
	nreq := 40
	if thorough {
		nreq = 150
	}
	cases = append(cases, attrsRequiredCases(nreq)...)
	// 0d. directed: kitchen-sink files for the view walker, custom features, raw default strings
	cases = append(cases, attrsSinkCases()...)
	nraw := 60
	if thorough {
		nraw = 3000
	}
	cases = append(cases, attrsRawDefaultCases(r, nraw)...)
	// 0c. directed: where the message type of a delimited field is declared (TextName / group-likeness)
	cases = append(cases, attrsGroupLikeCases()...)
	cases = append(cases, attrsGroupLikeNameCases()...)
	// 1. systematic: every valid field shape under proto2, proto3 and editions with file-level overrides
	cases = append(cases, g.systematicCase("proto2", attrsGNoFeat(), thorough))
	cases = append(cases, g.systematicCase("proto3", attrsGNoFeat(), thorough))
	nsys := 0
	pres := []byte{'-', 'E', 'I'}
	three := func(a, b byte) []byte { return []byte{'-', a, b} }
	for _, p := range pres {
		for _, et := range three('O', 'C') {
			for _, x := range three('P', 'X') {
				for _, u := range three('V', 'N') {
					for _, m := range three('L', 'D') {
						ft := attrsGFeat{p, et, x, u, m, '-'}
						n := 0
						for _, c := range ft {
							if c != '-' {
								n++
							}
						}
						if !thorough && n > 1 && !(p != '-' && m != '-' && n == 2) {
							continue
						}
						nsys++
						attrsGenViews = thorough || nsys%4 == 1
						cases = append(cases, g.systematicCase("editions", ft, false))
						attrsGenViews = true
					}
				}
			}
		}
	}
	cases = append(cases, g.systematicCase("editions", attrsGFeat{'I', 'C', 'X', 'N', 'D', 'B'}, false))
	if thorough {
		cases = append(cases, g.systematicCase("editions", attrsGNoFeat(), true))
	}
	// 1b. the same with inputs protoc rejects (see attrsGGen.risky); dropped when the compiler rejects them
	g.risky = true
	addIf := func(c []string) {
		if c != nil {
			cases = append(cases, c)
		}
	}
	addIf(g.systematicCase("proto2", attrsGNoFeat(), false))
	addIf(g.systematicCase("proto3", attrsGNoFeat(), false))
	for _, ft := range []attrsGFeat{attrsGNoFeat(), {'U', '-', '-', '-', '-', '-'}, {'-', 'U', '-', '-', '-', '-'}, {'-', 'U', 'U', 'U', 'U', 'U'}, {'I', 'U', '-', '-', 'D', '-'}} {
		addIf(g.systematicCase("editions", ft, false))
	}
	g.risky = false
	// 2. random nested files with a dependency
	n := 120
	if thorough {
		n = 6000
	}
	for i := 0; i < n; i++ {
		g.risky = i%6 == 5
		if c := g.randomCase(); c != nil {
			cases = append(cases, c)
		}
	}
	g.risky = false
	return cases
}
