package engines

// Generator of valid multi-file .proto workspaces for the pipeline engines
// (forms / relink / clone; C09, C10, C24).
//
// A workspace is a list of files; a file is a tree of declarations (b09N). The
// tree is what travels on the op line (so that the Lean model never parses
// .proto text); the Go side renders it to source text. Options are opaque to
// the model: they travel hex-encoded and are only rendered.

import (
	"encoding/hex"
	"fmt"
	"strconv"
	"strings"
)

// b09N is one declaration.
//
//	F path syn pkg  body .      file (syn: 2 | 3 | e)
//	I path / P path             import / import public
//	o HEX                       option statement
//	M name body .               message
//	N name body .               enum (body: V, o, v, w)
//	O name body .               oneof (body: f, g, o)
//	X extendee body .           extend block (body: f, g)
//	S name body .               service (body: C, o)
//	f lbl type name num json k HEX*k        field (lbl: n o q r; json "-" = none)
//	m ktype vtype name num json k HEX*k     map field
//	g lbl Name num k HEX*k body .           group
//	r n (start end)*n k HEX*k               extension ranges of one statement (end may be "max")
//	v start end                             reserved range (end may be "max")
//	w name                                  reserved name
//	V name num k HEX*k                      enum value
//	C name in out cs ss k|- HEX*k           method ("-" = no braces)
type b09N struct {
	K    byte
	A    []string
	Opts []string
	NoBr bool
	Body []*b09N
}

func b09HasBody(k byte) bool {
	switch k {
	case 'F', 'M', 'N', 'O', 'X', 'S', 'g':
		return true
	}
	return false
}

func b09HasOpts(k byte) bool {
	switch k {
	case 'f', 'm', 'g', 'r', 'V', 'C':
		return true
	}
	return false
}

func b09Arity(k byte) int {
	switch k {
	case 'F':
		return 3
	case 'I', 'P', 'o', 'M', 'N', 'O', 'X', 'S', 'w':
		return 1
	case 'f':
		return 5
	case 'm':
		return 5
	case 'g':
		return 3
	case 'v', 'V':
		return 2
	case 'C':
		return 5
	}
	return -1
}

func b09Hex(s string) string {
	if s == "" {
		return "-"
	}
	return hex.EncodeToString([]byte(s))
}

func b09UnHex(s string) (string, bool) {
	if s == "-" {
		return "", true
	}
	b, err := hex.DecodeString(s)
	if err != nil {
		return "", false
	}
	return string(b), true
}

func (n *b09N) encode(w *[]string) {
	*w = append(*w, string(n.K))
	if n.K == 'o' {
		*w = append(*w, b09Hex(n.A[0]))
	} else {
		*w = append(*w, n.A...)
	}
	if b09HasOpts(n.K) {
		if n.K == 'C' && n.NoBr {
			*w = append(*w, "-")
		} else {
			*w = append(*w, strconv.Itoa(len(n.Opts)))
			for _, o := range n.Opts {
				*w = append(*w, b09Hex(o))
			}
		}
	}
	if b09HasBody(n.K) {
		for _, c := range n.Body {
			c.encode(w)
		}
		*w = append(*w, ".")
	}
}

func b09EncodeWS(files []*b09N) string {
	var w []string
	for _, f := range files {
		f.encode(&w)
	}
	return strings.Join(w, " ")
}

// b09Decode parses the word list back into trees; ok=false on any malformed input.
func b09Decode(w []string) (files []*b09N, ok bool) {
	pos := 0
	var node func() *b09N
	node = func() *b09N {
		if pos >= len(w) || len(w[pos]) != 1 {
			return nil
		}
		k := w[pos][0]
		pos++
		n := &b09N{K: k}
		if k == 'r' {
			if pos >= len(w) {
				return nil
			}
			cnt, err := strconv.Atoi(w[pos])
			if err != nil || cnt < 1 || pos+1+2*cnt > len(w) {
				return nil
			}
			n.A = append([]string{}, w[pos:pos+1+2*cnt]...)
			pos += 1 + 2*cnt
		} else {
			ar := b09Arity(k)
			if ar < 0 || pos+ar > len(w) {
				return nil
			}
			n.A = append([]string{}, w[pos:pos+ar]...)
			pos += ar
			if k == 'o' {
				s, ok := b09UnHex(n.A[0])
				if !ok {
					return nil
				}
				n.A[0] = s
			}
		}
		if b09HasOpts(k) {
			if pos >= len(w) {
				return nil
			}
			if k == 'C' && w[pos] == "-" {
				n.NoBr = true
				pos++
			} else {
				cnt, err := strconv.Atoi(w[pos])
				if err != nil || cnt < 0 || pos+1+cnt > len(w) {
					return nil
				}
				pos++
				for i := 0; i < cnt; i++ {
					s, ok := b09UnHex(w[pos])
					if !ok {
						return nil
					}
					n.Opts = append(n.Opts, s)
					pos++
				}
			}
		}
		if b09HasBody(k) {
			for {
				if pos >= len(w) {
					return nil
				}
				if w[pos] == "." {
					pos++
					break
				}
				c := node()
				if c == nil {
					return nil
				}
				n.Body = append(n.Body, c)
			}
		}
		return n
	}
	for pos < len(w) {
		n := node()
		if n == nil || n.K != 'F' {
			return nil, false
		}
		files = append(files, n)
	}
	return files, len(files) > 0
}

// ---------------------------------------------------------------- rendering

type b09Renderer struct {
	b   strings.Builder
	syn string
	cnt int
}

func (p *b09Renderer) ind(d int) { p.b.WriteString(strings.Repeat("  ", d)) }

// comment sprinkles deterministic comments so that the source-info modes differ.
func (p *b09Renderer) comment(d int, what string) {
	p.cnt++
	switch p.cnt % 4 {
	case 0:
		p.ind(d)
		fmt.Fprintf(&p.b, "// detached %d\n\n", p.cnt)
		p.ind(d)
		fmt.Fprintf(&p.b, "// leading %s\n", what)
	case 1:
		p.ind(d)
		fmt.Fprintf(&p.b, "/* block %s */\n", what)
	case 2:
		// no comment
	case 3:
		p.ind(d)
		fmt.Fprintf(&p.b, "// c%d\n", p.cnt)
	}
}

func b09Brackets(json string, opts []string) string {
	var parts []string
	if json != "-" && json != "" {
		parts = append(parts, fmt.Sprintf("json_name = %q", json))
	}
	parts = append(parts, opts...)
	if len(parts) == 0 {
		return ""
	}
	return " [" + strings.Join(parts, ", ") + "]"
}

func b09Label(l string) string {
	switch l {
	case "o":
		return "optional "
	case "q":
		return "required "
	case "r":
		return "repeated "
	}
	return ""
}

func b09Range(s, e string) string {
	if s == e {
		return s
	}
	return s + " to " + e
}

func (p *b09Renderer) decl(n *b09N, d int) {
	switch n.K {
	case 'I':
		p.ind(d)
		fmt.Fprintf(&p.b, "import %q;\n", n.A[0])
	case 'P':
		p.ind(d)
		fmt.Fprintf(&p.b, "import public %q;\n", n.A[0])
	case 'o':
		p.ind(d)
		fmt.Fprintf(&p.b, "option %s;\n", n.A[0])
	case 'M':
		p.comment(d, "message "+n.A[0])
		p.ind(d)
		fmt.Fprintf(&p.b, "message %s {\n", n.A[0])
		p.body(n, d+1)
		p.ind(d)
		p.b.WriteString("}\n")
	case 'N':
		p.comment(d, "enum "+n.A[0])
		p.ind(d)
		fmt.Fprintf(&p.b, "enum %s {\n", n.A[0])
		p.body(n, d+1)
		p.ind(d)
		p.b.WriteString("}\n")
	case 'O':
		p.comment(d, "oneof "+n.A[0])
		p.ind(d)
		fmt.Fprintf(&p.b, "oneof %s {\n", n.A[0])
		p.body(n, d+1)
		p.ind(d)
		p.b.WriteString("}\n")
	case 'X':
		p.comment(d, "extend")
		p.ind(d)
		fmt.Fprintf(&p.b, "extend %s {\n", n.A[0])
		p.body(n, d+1)
		p.ind(d)
		p.b.WriteString("}\n")
	case 'S':
		p.comment(d, "service "+n.A[0])
		p.ind(d)
		fmt.Fprintf(&p.b, "service %s {\n", n.A[0])
		p.body(n, d+1)
		p.ind(d)
		p.b.WriteString("}\n")
	case 'f':
		p.comment(d, "field "+n.A[2])
		p.ind(d)
		fmt.Fprintf(&p.b, "%s%s %s = %s%s;", b09Label(n.A[0]), n.A[1], n.A[2], n.A[3], b09Brackets(n.A[4], n.Opts))
		if p.cnt%3 == 0 {
			p.b.WriteString(" // trailing " + n.A[2])
		}
		p.b.WriteString("\n")
	case 'm':
		p.comment(d, "map "+n.A[2])
		p.ind(d)
		fmt.Fprintf(&p.b, "map<%s, %s> %s = %s%s;\n", n.A[0], n.A[1], n.A[2], n.A[3], b09Brackets(n.A[4], n.Opts))
	case 'g':
		p.comment(d, "group "+n.A[1])
		p.ind(d)
		fmt.Fprintf(&p.b, "%sgroup %s = %s%s {\n", b09Label(n.A[0]), n.A[1], n.A[2], b09Brackets("-", n.Opts))
		p.body(n, d+1)
		p.ind(d)
		p.b.WriteString("}\n")
	case 'r':
		cnt, _ := strconv.Atoi(n.A[0])
		var rs []string
		for i := 0; i < cnt; i++ {
			rs = append(rs, b09Range(n.A[1+2*i], n.A[2+2*i]))
		}
		p.comment(d, "extensions")
		p.ind(d)
		fmt.Fprintf(&p.b, "extensions %s%s;\n", strings.Join(rs, ", "), b09Brackets("-", n.Opts))
	case 'v':
		p.ind(d)
		fmt.Fprintf(&p.b, "reserved %s;\n", b09Range(n.A[0], n.A[1]))
	case 'w':
		p.ind(d)
		if p.syn == "e" {
			fmt.Fprintf(&p.b, "reserved %s;\n", n.A[0])
		} else {
			fmt.Fprintf(&p.b, "reserved %q;\n", n.A[0])
		}
	case 'V':
		p.comment(d, "value "+n.A[0])
		p.ind(d)
		fmt.Fprintf(&p.b, "%s = %s%s;\n", n.A[0], n.A[1], b09Brackets("-", n.Opts))
	case 'C':
		p.comment(d, "rpc "+n.A[0])
		p.ind(d)
		in, out := n.A[1], n.A[2]
		if n.A[3] == "1" {
			in = "stream " + in
		}
		if n.A[4] == "1" {
			out = "stream " + out
		}
		fmt.Fprintf(&p.b, "rpc %s(%s) returns (%s)", n.A[0], in, out)
		if n.NoBr {
			p.b.WriteString(";\n")
		} else {
			p.b.WriteString(" {\n")
			for _, o := range n.Opts {
				p.ind(d + 1)
				fmt.Fprintf(&p.b, "option %s;\n", o)
			}
			p.ind(d)
			p.b.WriteString("}\n")
		}
	}
}

func (p *b09Renderer) body(n *b09N, d int) {
	for _, c := range n.Body {
		p.decl(c, d)
	}
}

// b09Render renders one file tree to .proto source text.
func b09Render(f *b09N) string {
	p := &b09Renderer{syn: f.A[1]}
	p.b.WriteString("// file " + f.A[0] + "\n")
	switch f.A[1] {
	case "2":
		p.b.WriteString("syntax = \"proto2\";\n")
	case "3":
		p.b.WriteString("syntax = \"proto3\";\n")
	case "e":
		p.b.WriteString("edition = \"2023\";\n")
	}
	if f.A[2] != "-" {
		p.b.WriteString("// the package\npackage " + f.A[2] + ";\n")
	}
	p.body(f, 0)
	p.b.WriteString("// end of file\n")
	return p.b.String()
}

// ---------------------------------------------------------------- option texts

func b09Leaf(k byte, a ...string) *b09N { return &b09N{K: k, A: a} }

func b09Fld(lbl, typ, name string, num int) *b09N {
	return &b09N{K: 'f', A: []string{lbl, typ, name, strconv.Itoa(num), "-"}}
}

// b09OptsFile is the fixed file that defines the custom options used by generated files.
func b09OptsFile() *b09N {
	cfg := &b09N{K: 'M', A: []string{"Cfg"}, Body: []*b09N{
		b09Fld("o", "int32", "i", 1),
		b09Fld("o", "string", "s", 2),
		b09Fld("r", "Cfg", "kids", 3),
		{K: 'm', A: []string{"string", "int32", "mp", "4", "-"}},
		b09Fld("o", "Kind", "k", 5),
		{K: 'O', A: []string{"ch"}, Body: []*b09N{b09Fld("n", "bool", "b", 6), b09Fld("n", "double", "d", 7)}},
		b09Fld("o", "bytes", "by", 8),
		b09Fld("r", "int32", "ri", 9),
		b09Fld("o", "float", "fl", 10),
		b09Fld("o", "google.protobuf.Any", "any", 11),
		{K: 'g', A: []string{"o", "Grp", "12"}, Body: []*b09N{b09Fld("o", "int32", "gi", 1)}},
		b09Fld("o", "uint64", "u", 13),
		b09Fld("o", "sint64", "si", 14),
		b09Fld("r", ".b09o.Kind", "rk", 15),
		{K: 'r', A: []string{"1", "100", "200"}},
	}}
	kind := &b09N{K: 'N', A: []string{"Kind"}, Body: []*b09N{
		{K: 'V', A: []string{"K0", "0"}}, {K: 'V', A: []string{"K1", "1"}}, {K: 'V', A: []string{"K2", "2"}}}}
	ext := func(extendee string, flds ...*b09N) *b09N {
		return &b09N{K: 'X', A: []string{extendee}, Body: flds}
	}
	return &b09N{K: 'F', A: []string{"b09o.proto", "2", "b09o"}, Body: []*b09N{
		b09Leaf('I', "google/protobuf/descriptor.proto"),
		b09Leaf('I', "google/protobuf/any.proto"),
		cfg, kind,
		ext("Cfg", b09Fld("o", "string", "cfgext", 100)),
		ext("google.protobuf.FileOptions", b09Fld("o", "Cfg", "fcfg", 50001), b09Fld("o", "string", "fs", 50002), b09Fld("r", "int32", "fri", 50003)),
		ext("google.protobuf.MessageOptions", b09Fld("o", "Cfg", "mcfg", 50001), b09Fld("o", "int32", "mi", 50002)),
		ext(".google.protobuf.FieldOptions", b09Fld("o", "b09o.Cfg", "fdcfg", 50001), b09Fld("o", "Kind", "fdk", 50002), b09Fld("r", "string", "fdrs", 50003)),
		ext("google.protobuf.OneofOptions", b09Fld("o", "Cfg", "ocfg", 50001)),
		ext("google.protobuf.EnumOptions", b09Fld("o", "Cfg", "ecfg", 50001), b09Fld("o", "string", "es", 50002)),
		ext("google.protobuf.EnumValueOptions", b09Fld("o", "Cfg", "vcfg", 50001), b09Fld("o", "int32", "vi", 50002)),
		ext("google.protobuf.ServiceOptions", b09Fld("o", "Cfg", "scfg", 50001)),
		ext("google.protobuf.MethodOptions", b09Fld("o", "Cfg", "tcfg", 50001)),
		ext("google.protobuf.ExtensionRangeOptions", b09Fld("o", "Cfg", "rcfg", 50001), b09Fld("o", "int32", "rgi", 50002), b09Fld("r", "string", "rtags", 50003)),
	}}
}

// b09CfgLiteral builds a text-format literal for b09o.Cfg (without the outer braces).
// risky=true admits the float spellings on which the unlinked-proto form is known to differ
// from the source form (negative inf/nan, hex and octal integers for float fields).
func b09CfgLiteral(r *Rand, depth int, risky bool) string {
	var parts []string
	sep := Pick(r, []string{" ", ", ", "; ", "  "})
	used := map[string]bool{}
	n := 1 + r.Intn(5)
	for j := 0; j < n; j++ {
		switch c := r.Intn(17); c {
		case 0:
			if !used["i"] {
				used["i"] = true
				parts = append(parts, "i: "+Pick(r, []string{"5", "-3", "0x1F", "017", "0", "2147483647", "-2147483648", "- 7", "-0x10", "-017"}))
			}
		case 1:
			if !used["s"] {
				used["s"] = true
				parts = append(parts, "s: "+Pick(r, []string{`"txt"`, `'q\n\x41\101'`, `"a" "b"`, `""`, `"é\t\"x\""`, `'it''s'`, `"\\"`}))
			}
		case 2:
			if depth > 0 {
				inner := b09CfgLiteral(r, depth-1, risky)
				parts = append(parts, Pick(r, []string{"kids { " + inner + " }", "kids: { " + inner + " }", "kids < " + inner + " >", "kids: [{ " + inner + " }, { i: 1 }]", "kids: []"}))
			}
		case 3:
			parts = append(parts, Pick(r, []string{`mp { key: "k" value: 1 }`, `mp: [{key: "a" value: 2}, {key: "b"}]`, `mp { key: "k" }`, `mp {}`, `mp { value: 3 key: "z" }`}))
		case 4:
			if !used["k"] {
				used["k"] = true
				parts = append(parts, "k: "+Pick(r, []string{"K1", "2", "K0", "0"}))
			}
		case 5:
			if !used["ch"] {
				used["ch"] = true
				if risky && r.Chance(1, 2) {
					parts = append(parts, Pick(r, []string{"d: -inf", "d: -nan", "d: 0x10", "d: 017", "d: - inf"}))
				} else {
					parts = append(parts, Pick(r, []string{"b: true", "b: false", "d: 1.5", "d: nan", "d: 1e10", "d: 3", "d: inf", "d: -0.0", "d: 1.0e-320", "d: .5", "d: 5.", "d: -1.5", "d: -3", "d: 18446744073709551615"}))
				}
			}
		case 6:
			if !used["by"] {
				used["by"] = true
				parts = append(parts, "by: "+Pick(r, []string{`"\000\377"`, `"\xff\xFE"`, `'a\'b'`, `"\?\a\b\f\v"`}))
			}
		case 7:
			parts = append(parts, Pick(r, []string{"ri: [1, 2, 3]", "ri: 1 ri: 2", "ri: []", "ri: [-1]"}))
		case 8:
			if !used["fl"] {
				used["fl"] = true
				if risky && r.Chance(1, 2) {
					parts = append(parts, "fl: "+Pick(r, []string{"-inf", "0x7f", "010", "-nan"}))
				} else {
					parts = append(parts, "fl: "+Pick(r, []string{"1.5", "1e40", "-0.0", "3", "1.17549435e-38", "16777217", "nan", "inf", "1e-50", "-1e40"}))
				}
			}
		case 9:
			if !used["ext"] {
				used["ext"] = true
				parts = append(parts, Pick(r, []string{`[b09o.cfgext]: "e"`, `[b09o.cfgext]: 'f' "g"`, `[ b09o . cfgext ]: "g"`}))
			}
		case 10:
			if !used["any"] && depth > 0 {
				used["any"] = true
				parts = append(parts, Pick(r, []string{
					`any { [type.googleapis.com/b09o.Cfg] { i: 1 } }`,
					`any: { [type.googleapis.com/b09o.Cfg]: { s: "in any" } }`,
					`any { type_url: "type.googleapis.com/b09o.Cfg" value: "\010\001" }`,
					`any { [type.googleapis.com/b09o.Cfg] { } }`}))
			}
		case 11:
			if !used["grp"] {
				used["grp"] = true
				parts = append(parts, Pick(r, []string{"Grp { gi: 1 }", "Grp: { gi: 2 }", "Grp {}", "grp { gi: 3 }"}))
			}
		case 12:
			if !used["u"] {
				used["u"] = true
				parts = append(parts, "u: "+Pick(r, []string{"18446744073709551615", "0", "0xFFFFFFFFFFFFFFFF", "9223372036854775808"}))
			}
		case 13:
			if !used["si"] {
				used["si"] = true
				parts = append(parts, "si: "+Pick(r, []string{"-9223372036854775808", "9223372036854775807", "-0", "-0x10"}))
			}
		case 14:
			parts = append(parts, Pick(r, []string{"rk: [K1, K2]", "rk: K0", "rk: [1]", "rk: K2 rk: 1"}))
		case 15:
			if !used["i"] {
				used["i"] = true
				parts = append(parts, "i: 1 /* c */")
			}
		case 16:
			if !used["s"] {
				used["s"] = true
				parts = append(parts, "s: \"multi\"\n   'line'")
			}
		}
	}
	return strings.Join(parts, sep)
}

// b09CustomOpt returns a custom option text for the element kind
// (one of: file message field oneof enum value service method range).
func b09CustomOpt(r *Rand, kind string, seen map[string]bool, risky bool) string {
	pre := Pick(r, []string{"(b09o.", "(.b09o.", "( b09o."})
	pick := func(cands ...string) string {
		for try := 0; try < 4; try++ {
			c := Pick(r, cands)
			name, _, _ := strings.Cut(c, "=")
			name = strings.TrimSpace(name)
			rep := strings.HasPrefix(name, "fri)") || strings.HasPrefix(name, "fdrs)")
			if !rep {
				if seen[name] {
					continue
				}
				// a whole-message option excludes its sub-field options and vice versa
				base, _, _ := strings.Cut(name, ")")
				if strings.Contains(name, ").") {
					if seen[base+")"] {
						continue
					}
					seen[base+").*"] = true
				} else if seen[base+").*"] {
					continue
				}
				seen[name] = true
			}
			return pre + c
		}
		return ""
	}
	lit := func() string { return "{ " + b09CfgLiteral(r, 2, risky) + " }" }
	switch kind {
	case "file":
		return pick("fcfg) = "+lit(), `fs) = "file\tstr"`, "fri) = "+Pick(r, []string{"1", "-5", "0x7fffffff"}), "fcfg).i = 4", `fcfg).s = "x"`, "fcfg).kids = "+lit())
	case "message":
		return pick("mcfg) = "+lit(), "mi) = "+Pick(r, []string{"1", "-1", "0"}), "mcfg).k = K2", "mcfg).mp = { key: 'a' value: 1 }")
	case "field":
		return pick("fdcfg) = "+lit(), "fdk) = "+Pick(r, []string{"K1", "K0"}), `fdrs) = "a"`, `fdrs) = 'b' "c"`, "fdcfg).d = "+Pick(r, []string{"inf", "-inf", "nan", "1", "-1.5e3"}), "fdcfg).(b09o.cfgext) = 'x'", "fdcfg).grp = { gi: 1 }", "fdcfg).u = 0x10")
	case "oneof":
		return pick("ocfg) = "+lit(), "ocfg).i = 1")
	case "enum":
		return pick("ecfg) = "+lit(), `es) = "enum"`)
	case "value":
		return pick("vcfg) = "+lit(), "vi) = 7", "vcfg).u = 1")
	case "service":
		return pick("scfg) = "+lit(), "scfg).ri = 1")
	case "method":
		return pick("tcfg) = "+lit(), "tcfg).by = 'x'")
	case "range":
		return pick("rcfg) = "+lit(), "rgi) = 3")
	}
	return ""
}

// ---------------------------------------------------------------- workspace generator

type b09Type struct {
	fqn     string // without leading dot
	isEnum  bool
	file    int
	open    bool     // enum: open (proto3 / editions)
	ranges  [][2]int // message: extension ranges [lo, hi]
	vals    []string // enum: value names
	zero1st bool     // enum: first value is zero
	syn     string
}

type b09Gen struct {
	r, sp   *Rand // structure / spelling streams
	dotted  bool
	useOpts bool
	risky   bool
	files   []*b09N
	syns    []string
	pkgs    []string
	deps    [][]int // direct imports
	pub     [][]bool
	types   []*b09Type
	extUsed map[string]map[int]bool
	pkgUse  map[string]map[string]bool // symbols per package (shared by all files of the workspace)
	pending []b09Ref
	refs    []b09Ref
}

var (
	b09Pkgs      = []string{"-", "p", "p.q", "q", "p.q.r", "q.p"}
	b09MsgNames  = []string{"A", "B", "C", "D", "P", "Q"}
	b09EnumNames = []string{"E", "F", "G"}
	b09FldNames  = []string{"a", "b_c", "d1", "e_f_g", "h", "_k", "m__n", "x_", "Zed", "q2_r"}
	b09Scalars   = []string{"double", "float", "int32", "int64", "uint32", "uint64", "sint32", "sint64", "fixed32", "fixed64", "sfixed32", "sfixed64", "bool", "string", "bytes"}
	b09KeyTypes  = []string{"int32", "int64", "uint32", "uint64", "sint32", "sint64", "fixed32", "fixed64", "sfixed32", "sfixed64", "bool", "string"}
	b09Numbers   = []int{1, 2, 3, 4, 5, 15, 16, 17, 2047, 2048, 18999, 20000, 65535, 536870911, 7, 8, 9, 10, 11, 12}
)

// visible returns the indexes of files visible from file i (itself first).
func (g *b09Gen) visible(i int) []int {
	seen := map[int]bool{i: true}
	out := []int{i}
	var pubs func(j int)
	pubs = func(j int) {
		for k, d := range g.deps[j] {
			if g.pub[j][k] && !seen[d] {
				seen[d] = true
				out = append(out, d)
				pubs(d)
			}
		}
	}
	for _, d := range g.deps[i] {
		if !seen[d] {
			seen[d] = true
			out = append(out, d)
		}
		pubs(d)
	}
	return out
}

type b09Ref struct {
	n      *b09N
	idx    int
	target string
	pkg    string
	scope  []string
}

// spell returns the leading-dot spelling and remembers the reference so that
// b09Respell can later try the other spellings one reference at a time.
func (g *b09Gen) spell(target string, pkg string, scope []string) string {
	g.pending = append(g.pending, b09Ref{target: target, pkg: pkg, scope: append([]string{}, scope...)})
	return "." + target
}

// bind attaches the references created since the last call to argument idx of n.
func (g *b09Gen) bind(n *b09N, idx ...int) {
	for k, r := range g.pending {
		if k < len(idx) {
			r.n, r.idx = n, idx[k]
			g.refs = append(g.refs, r)
		}
	}
	g.pending = nil
}

func (g *b09Gen) candidates(target string, pkg string, scope []string) []string {
	var cands []string
	cands = append(cands, "."+target, target)
	if pkg != "-" && strings.HasPrefix(target, pkg+".") {
		rel := target[len(pkg)+1:]
		cands = append(cands, rel, rel)
		// strip enclosing message names too
		cur := rel
		for _, s := range scope {
			if strings.HasPrefix(cur, s+".") {
				cur = cur[len(s)+1:]
				cands = append(cands, cur, cur)
			} else {
				break
			}
		}
	}
	comps := strings.Split(target, ".")
	for i := 1; i < len(comps); i++ {
		cands = append(cands, strings.Join(comps[i:], "."))
	}
	return cands
}

// b09Respell replaces leading-dot references by other spellings, one at a time, keeping a
// spelling only if the real compiler still accepts the workspace.
func (g *b09Gen) respell(limit int) {
	order := make([]int, len(g.refs))
	for i := range order {
		order[i] = i
	}
	for i := len(order) - 1; i > 0; i-- {
		j := g.sp.Intn(i + 1)
		order[i], order[j] = order[j], order[i]
	}
	if len(order) > limit {
		order = order[:limit]
	}
	for _, k := range order {
		r := g.refs[k]
		old := r.n.A[r.idx]
		cand := Pick(g.sp, g.candidates(r.target, r.pkg, r.scope))
		if cand == old {
			continue
		}
		r.n.A[r.idx] = cand
		if !b09Accepted(g.files) {
			r.n.A[r.idx] = old
		}
	}
}

func b09PickUnique(r *Rand, pool []string, used map[string]bool) string {
	for try := 0; try < 8; try++ {
		n := Pick(r, pool)
		if !used[n] {
			used[n] = true
			return n
		}
	}
	for i := 0; ; i++ {
		n := pool[0] + strconv.Itoa(i)
		if !used[n] {
			used[n] = true
			return n
		}
	}
}

func b09Norm(s string) string {
	return strings.ToLower(strings.ReplaceAll(s, "_", ""))
}

type b09MsgCtx struct {
	node    *b09N
	fqn     string
	scope   []string // enclosing message names incl. this one
	nameUse map[string]bool
	normUse map[string]bool
	numUse  map[int]bool
	typ     *b09Type
}

func (g *b09Gen) number(mc *b09MsgCtx) int {
	for try := 0; try < 10; try++ {
		n := Pick(g.r, b09Numbers)
		if g.numOK(mc, n) {
			mc.numUse[n] = true
			return n
		}
	}
	for n := 21; ; n++ {
		if g.numOK(mc, n) {
			mc.numUse[n] = true
			return n
		}
	}
}

func (g *b09Gen) numOK(mc *b09MsgCtx, n int) bool {
	if mc.numUse[n] {
		return false
	}
	for _, rg := range mc.typ.ranges {
		if n >= rg[0] && n <= rg[1] {
			return false
		}
	}
	return !(n >= 50 && n <= 59) // reserved block
}

func (g *b09Gen) fieldName(mc *b09MsgCtx) string {
	for try := 0; try < 12; try++ {
		n := Pick(g.r, b09FldNames)
		if !mc.nameUse[n] && !mc.normUse[b09Norm(n)] {
			mc.nameUse[n] = true
			mc.normUse[b09Norm(n)] = true
			return n
		}
	}
	for i := 0; ; i++ {
		n := "f" + strconv.Itoa(i)
		if !mc.nameUse[n] && !mc.normUse[n] {
			mc.nameUse[n] = true
			mc.normUse[n] = true
			return n
		}
	}
}

// candidate types visible from file fi; msgOnly / enumOnly filters; proto3 files may
// only use open enums.
func (g *b09Gen) pickType(fi int, wantMsg, wantEnum bool) *b09Type {
	vis := map[int]bool{}
	for _, v := range g.visible(fi) {
		vis[v] = true
	}
	var cands []*b09Type
	for _, t := range g.types {
		if !vis[t.file] {
			continue
		}
		if t.isEnum && !wantEnum || !t.isEnum && !wantMsg {
			continue
		}
		if t.isEnum && g.syns[fi] == "3" && !t.open {
			continue
		}
		if strings.HasPrefix(t.fqn, "google.") {
			continue
		}
		cands = append(cands, t)
	}
	if len(cands) == 0 {
		return nil
	}
	return Pick(g.r, cands)
}

func (g *b09Gen) stdFieldOpts(fi int, lbl, typ string, isScalar bool, target *b09Type, inOneof, isExt bool) []string {
	var out []string
	syn := g.syns[fi]
	r := g.r
	if r.Chance(1, 6) {
		out = append(out, "deprecated = "+Pick(r, []string{"true", "false"}))
	}
	numeric := isScalar && typ != "string" && typ != "bytes"
	if lbl == "r" && (numeric || target != nil && target.isEnum) && syn != "e" && r.Chance(1, 3) {
		out = append(out, "packed = "+Pick(r, []string{"true", "false"}))
	}
	if syn == "2" && (lbl == "o" || lbl == "n" && inOneof) && r.Chance(1, 3) {
		switch {
		case typ == "string":
			out = append(out, "default = "+Pick(r, []string{`"str\n"`, `'x\'y'`, `""`, `"a" 'b'`, `"\xe2\x82\xac"`}))
		case typ == "bytes":
			out = append(out, "default = "+Pick(r, []string{`"\000\xff"`, `'b'`, `"\""`}))
		case typ == "bool":
			out = append(out, "default = "+Pick(r, []string{"true", "false"}))
		case typ == "double" || typ == "float":
			out = append(out, "default = "+Pick(r, []string{"1.5", "inf", "-inf", "nan", "0", "-0.0", "1e10", "3", "-2"}))
		case isScalar && (strings.HasPrefix(typ, "u") || strings.HasPrefix(typ, "fixed")):
			out = append(out, "default = "+Pick(r, []string{"0", "5", "0x10", "4294967295", "017"}))
		case isScalar:
			out = append(out, "default = "+Pick(r, []string{"0", "-1", "5", "0x10", "2147483647", "-2147483648", "-0"}))
		case target != nil && target.isEnum && len(target.vals) > 0:
			out = append(out, "default = "+Pick(r, target.vals))
		}
	}
	if isScalar && strings.HasSuffix(typ, "64") && r.Chance(1, 8) {
		out = append(out, "jstype = "+Pick(r, []string{"JS_STRING", "JS_NUMBER", "JS_NORMAL"}))
	}
	if typ == "string" && r.Chance(1, 10) {
		out = append(out, "ctype = CORD")
	}
	if r.Chance(1, 12) {
		out = append(out, "retention = "+Pick(r, []string{"RETENTION_SOURCE", "RETENTION_RUNTIME"}))
	}
	if r.Chance(1, 14) {
		out = append(out, "targets = TARGET_TYPE_FIELD")
	}
	if r.Chance(1, 14) {
		out = append(out, "debug_redact = true")
	}
	if syn == "e" {
		if lbl == "n" && !inOneof && !isExt && r.Chance(1, 4) {
			if target != nil && !target.isEnum {
				out = append(out, "features.message_encoding = "+Pick(r, []string{"DELIMITED", "LENGTH_PREFIXED"}))
			} else {
				out = append(out, "features.field_presence = "+Pick(r, []string{"IMPLICIT", "EXPLICIT", "LEGACY_REQUIRED"}))
			}
		}
		if lbl == "r" && (numeric || target != nil && target.isEnum) && r.Chance(1, 3) {
			out = append(out, "features.repeated_field_encoding = "+Pick(r, []string{"EXPANDED", "PACKED"}))
		}
		if typ == "string" && r.Chance(1, 5) {
			out = append(out, "features.utf8_validation = NONE")
		}
	}
	if g.useOpts {
		seen := map[string]bool{}
		for r.Chance(2, 5) {
			if o := b09CustomOpt(r, "field", seen, g.risky); o != "" {
				out = append(out, o)
			}
		}
	}
	return out
}

func (g *b09Gen) customStmts(kind string, p int) []*b09N {
	var out []*b09N
	if !g.useOpts {
		return nil
	}
	seen := map[string]bool{}
	for g.r.Chance(1, p) {
		if o := b09CustomOpt(g.r, kind, seen, g.risky); o != "" {
			out = append(out, b09Leaf('o', o))
		}
	}
	return out
}

func (g *b09Gen) customList(kind string, p int) []string {
	var out []string
	if !g.useOpts {
		return nil
	}
	seen := map[string]bool{}
	for g.r.Chance(1, p) {
		if o := b09CustomOpt(g.r, kind, seen, g.risky); o != "" {
			out = append(out, o)
		}
	}
	return out
}

// genField makes one field declaration (not map/group) in message mc of file fi.
func (g *b09Gen) genField(fi int, mc *b09MsgCtx, inOneof bool, isExt bool, extNum int) *b09N {
	syn := g.syns[fi]
	pkg := g.pkgs[fi]
	name := g.fieldName(mc)
	num := extNum
	if !isExt {
		num = g.number(mc)
	}
	var lbl string
	switch {
	case inOneof:
		lbl = "n"
	case syn == "2":
		lbl = Pick(g.r, []string{"o", "o", "r", "q"})
		if isExt && lbl == "q" {
			lbl = "o"
		}
	case syn == "3":
		lbl = Pick(g.r, []string{"n", "n", "o", "r"})
	default:
		lbl = Pick(g.r, []string{"n", "n", "r"})
	}
	typ := Pick(g.r, b09Scalars)
	isScalar := true
	var target *b09Type
	if g.r.Chance(2, 5) {
		if t := g.pickType(fi, true, true); t != nil {
			target = t
			isScalar = false
			typ = g.spell(t.fqn, pkg, mc.scope)
		}
	}
	json := "-"
	if !isExt && g.r.Chance(1, 6) {
		cand := "J" + name
		if !mc.normUse[b09Norm(cand)] {
			mc.normUse[b09Norm(cand)] = true
			json = cand
		}
	}
	n := &b09N{K: 'f', A: []string{lbl, typ, name, strconv.Itoa(num), json}}
	g.bind(n, 1)
	n.Opts = g.stdFieldOpts(fi, lbl, typ, isScalar, target, inOneof, isExt)
	return n
}

func (g *b09Gen) genEnum(fi int, name, parentFqn string, siblingVals map[string]bool) (*b09N, *b09Type) {
	syn := g.syns[fi]
	fqn := name
	if parentFqn != "" {
		fqn = parentFqn + "." + name
	}
	t := &b09Type{fqn: fqn, isEnum: true, file: fi, open: syn != "2", syn: syn}
	n := &b09N{K: 'N', A: []string{name}}
	nv := 1 + g.r.Intn(4)
	nums := []int{0, 1, 2, -1, 5, 2147483647, -2147483648, 100}
	usedNum := map[int]bool{}
	alias := g.r.Chance(1, 6) && nv >= 2
	if alias {
		n.Body = append(n.Body, b09Leaf('o', "allow_alias = true"))
	}
	if g.r.Chance(1, 8) {
		n.Body = append(n.Body, b09Leaf('o', "deprecated = true"))
	}
	n.Body = append(n.Body, g.customStmts("enum", 4)...)
	last := 0
	for i := 0; i < nv; i++ {
		vn := b09PickUnique(g.r, []string{name + "_ZERO", name + "_ONE", "V" + name, name + "_x", "K" + name + "2"}, siblingVals)
		num := 0
		if i > 0 || syn == "2" && g.r.Chance(1, 3) {
			if alias && i == nv-1 {
				num = last
			} else {
				for {
					num = Pick(g.r, nums)
					if !usedNum[num] && !(num >= 40 && num <= 49) {
						break
					}
				}
			}
		}
		usedNum[num] = true
		last = num
		if i == 0 {
			t.zero1st = num == 0
		}
		v := &b09N{K: 'V', A: []string{vn, strconv.Itoa(num)}}
		if g.r.Chance(1, 8) {
			v.Opts = append(v.Opts, "deprecated = true")
		}
		v.Opts = append(v.Opts, g.customList("value", 5)...)
		n.Body = append(n.Body, v)
		t.vals = append(t.vals, vn)
	}
	if g.r.Chance(1, 4) {
		n.Body = append(n.Body, b09Leaf('v', "40", Pick(g.r, []string{"40", "49"})))
		if g.r.Chance(1, 2) {
			n.Body = append(n.Body, b09Leaf('w', "RSV_"+name))
		}
	}
	return n, t
}

// skeleton creates the message tree (names, nested messages, enums) so that fields can
// refer to types declared later.
func (g *b09Gen) skeleton(fi int, parent *b09MsgCtx, names map[string]bool) *b09MsgCtx {
	name := b09PickUnique(g.r, b09MsgNames, names)
	fqn := name
	var scope []string
	if parent != nil {
		fqn = parent.fqn + "." + name
		scope = append(append([]string{}, parent.scope...), name)
	} else {
		if g.pkgs[fi] != "-" {
			fqn = g.pkgs[fi] + "." + name
		}
		scope = []string{name}
	}
	t := &b09Type{fqn: fqn, file: fi, syn: g.syns[fi]}
	mc := &b09MsgCtx{node: &b09N{K: 'M', A: []string{name}}, fqn: fqn, scope: scope,
		nameUse: map[string]bool{}, normUse: map[string]bool{}, numUse: map[int]bool{}, typ: t}
	if g.syns[fi] != "3" && g.r.Chance(1, 3) {
		switch g.r.Intn(3) {
		case 0:
			t.ranges = [][2]int{{100, 199}}
		case 1:
			t.ranges = [][2]int{{1000, 1000}, {1002, 1999}}
		case 2:
			t.ranges = [][2]int{{100000, 536870911}}
		}
	}
	g.types = append(g.types, t)
	return mc
}

type b09MsgPlan struct {
	mc     *b09MsgCtx
	nested []*b09MsgPlan
	enums  []*b09N
}

func (g *b09Gen) planMsg(fi int, parent *b09MsgCtx, names map[string]bool, depth int) *b09MsgPlan {
	mc := g.skeleton(fi, parent, names)
	pl := &b09MsgPlan{mc: mc}
	if depth < 2 {
		for k := g.r.Intn(3 - depth); k > 0; k-- {
			pl.nested = append(pl.nested, g.planMsg(fi, mc, mc.nameUse, depth+1))
		}
	}
	if g.r.Chance(1, 3) {
		en := b09PickUnique(g.r, b09EnumNames, mc.nameUse)
		n, t := g.genEnum(fi, en, mc.fqn, mc.nameUse)
		pl.enums = append(pl.enums, n)
		g.types = append(g.types, t)
	}
	return pl
}

func (g *b09Gen) fillMsg(fi int, pl *b09MsgPlan) *b09N {
	mc := pl.mc
	syn := g.syns[fi]
	pkg := g.pkgs[fi]
	var decls []*b09N
	if g.r.Chance(1, 8) {
		decls = append(decls, b09Leaf('o', "deprecated = true"))
	}
	decls = append(decls, g.customStmts("message", 4)...)
	nf := g.r.Intn(5)
	for i := 0; i < nf; i++ {
		switch c := g.r.Intn(10); {
		case c < 6:
			decls = append(decls, g.genField(fi, mc, false, false, 0))
		case c == 6:
			// map
			name := g.fieldName(mc)
			entry := b09MapEntryName(name)
			if mc.nameUse[entry] {
				continue
			}
			mc.nameUse[entry] = true
			vt := Pick(g.r, b09Scalars)
			if g.r.Chance(1, 3) {
				// (an enum whose first value is not zero is accepted by protocompile as a map
				// value but rejected by protoc and by protobuf-go's protodesc: not generated)
				if t := g.pickType(fi, true, true); t != nil && (!t.isEnum || t.zero1st) {
					vt = g.spell(t.fqn, pkg, mc.scope)
					if t.isEnum {
						g.pending = nil // keep the leading-dot spelling: another spelling may pick another enum
					}
				}
			}
			kt := Pick(g.r, b09KeyTypes)
			n := &b09N{K: 'm', A: []string{kt, vt, name, strconv.Itoa(g.number(mc)), "-"}}
			if syn == "e" {
				// features set on a map field are propagated to its synthetic key/value fields
				if (kt == "string" || vt == "string") && g.r.Chance(1, 3) {
					n.Opts = append(n.Opts, "features.utf8_validation = NONE")
				}
				if g.r.Chance(1, 3) {
					n.Opts = append(n.Opts, "features.repeated_field_encoding = EXPANDED")
				}
			}
			g.bind(n, 1)
			if g.r.Chance(1, 8) {
				n.Opts = append(n.Opts, "deprecated = true")
			}
			n.Opts = append(n.Opts, g.customList("field", 5)...)
			decls = append(decls, n)
		case c == 7 && syn == "2":
			// group
			gn := b09PickUnique(g.r, []string{"Grp", "Gx", "Inner"}, mc.nameUse)
			low := strings.ToLower(gn)
			if mc.nameUse[low] || mc.normUse[b09Norm(low)] {
				continue
			}
			mc.nameUse[low] = true
			mc.normUse[b09Norm(low)] = true
			gt := &b09Type{fqn: mc.fqn + "." + gn, file: fi, syn: syn}
			g.types = append(g.types, gt)
			gmc := &b09MsgCtx{fqn: gt.fqn, scope: append(append([]string{}, mc.scope...), gn),
				nameUse: map[string]bool{}, normUse: map[string]bool{}, numUse: map[int]bool{}, typ: gt}
			n := &b09N{K: 'g', A: []string{Pick(g.r, []string{"o", "r", "q"}), gn, strconv.Itoa(g.number(mc))}}
			n.Opts = g.customList("field", 6)
			for k := g.r.Intn(3); k > 0; k-- {
				n.Body = append(n.Body, g.genField(fi, gmc, false, false, 0))
			}
			decls = append(decls, n)
		case c == 8:
			// oneof
			on := b09PickUnique(g.r, []string{"choice", "kind", "o1"}, mc.nameUse)
			if mc.normUse[b09Norm(on)] {
				continue
			}
			o := &b09N{K: 'O', A: []string{on}}
			o.Body = append(o.Body, g.customStmts("oneof", 4)...)
			for k := 1 + g.r.Intn(3); k > 0; k-- {
				o.Body = append(o.Body, g.genField(fi, mc, true, false, 0))
			}
			decls = append(decls, o)
		case c == 9:
			if mc.numUse[-1] {
				continue
			}
			mc.numUse[-1] = true
			if g.r.Chance(1, 2) {
				decls = append(decls, b09Leaf('v', "50", Pick(g.r, []string{"50", "59"})))
			} else {
				decls = append(decls, b09Leaf('w', "rsv_"+strconv.Itoa(i)))
			}
		default:
			decls = append(decls, g.genField(fi, mc, false, false, 0))
		}
	}
	if len(mc.typ.ranges) > 0 {
		rn := &b09N{K: 'r', A: []string{strconv.Itoa(len(mc.typ.ranges))}}
		for _, rg := range mc.typ.ranges {
			hi := strconv.Itoa(rg[1])
			if rg[1] == 536870911 {
				hi = "max"
			}
			rn.A = append(rn.A, strconv.Itoa(rg[0]), hi)
		}
		if g.r.Chance(1, 5) || len(mc.typ.ranges) > 1 && g.r.Chance(1, 2) {
			rn.Opts = append(rn.Opts, "verification = UNVERIFIED")
		}
		if g.useOpts && len(mc.typ.ranges) > 1 && g.r.Chance(1, 2) {
			rn.Opts = append(rn.Opts, `(b09o.rtags) = "t"`)
		}
		rn.Opts = append(rn.Opts, g.customList("range", 3)...)
		decls = append(decls, rn)
	}
	for _, np := range pl.nested {
		decls = append(decls, g.fillMsg(fi, np))
	}
	decls = append(decls, pl.enums...)
	// nested extend block
	if x := g.genExtend(fi, mc); x != nil && g.r.Chance(1, 3) {
		decls = append(decls, x)
	}
	// shuffle, keeping options first is not required by the grammar
	for i := len(decls) - 1; i > 0; i-- {
		j := g.r.Intn(i + 1)
		decls[i], decls[j] = decls[j], decls[i]
	}
	mc.node.Body = decls
	return mc.node
}

func b09MapEntryName(name string) string {
	var b strings.Builder
	up := true
	for _, c := range name {
		if c == '_' {
			up = true
			continue
		}
		if up {
			b.WriteString(strings.ToUpper(string(c)))
			up = false
		} else {
			b.WriteRune(c)
		}
	}
	return b.String() + "Entry"
}

// genExtend creates an extend block for some visible extendable message (or nil).
func (g *b09Gen) genExtend(fi int, mc *b09MsgCtx) *b09N {
	if g.syns[fi] == "3" {
		return nil
	}
	vis := map[int]bool{}
	for _, v := range g.visible(fi) {
		vis[v] = true
	}
	var cands []*b09Type
	for _, t := range g.types {
		if vis[t.file] && !t.isEnum && len(t.ranges) > 0 && !strings.HasPrefix(t.fqn, "google.") && !strings.HasPrefix(t.fqn, "b09o.") {
			cands = append(cands, t)
		}
	}
	if len(cands) == 0 {
		return nil
	}
	t := Pick(g.r, cands)
	var scope []string
	var ctx *b09MsgCtx
	if mc != nil {
		scope = mc.scope
		ctx = mc
	} else {
		ctx = &b09MsgCtx{nameUse: map[string]bool{}, normUse: map[string]bool{}, numUse: map[int]bool{}, typ: &b09Type{}}
	}
	x := &b09N{K: 'X', A: []string{g.spell(t.fqn, g.pkgs[fi], scope)}}
	g.bind(x, 0)
	if g.extUsed[t.fqn] == nil {
		g.extUsed[t.fqn] = map[int]bool{}
	}
	for k := 1 + g.r.Intn(2); k > 0; k-- {
		rg := Pick(g.r, t.ranges)
		num := rg[0] + g.r.Intn(min(rg[1]-rg[0]+1, 50))
		if g.r.Chance(1, 4) {
			num = rg[1]
		}
		if g.extUsed[t.fqn][num] {
			continue
		}
		g.extUsed[t.fqn][num] = true
		f := g.genField(fi, ctx, false, true, num)
		// extension names live in the enclosing scope: make them unique per file
		f.A[2] = fmt.Sprintf("x%d_%s", len(g.extUsed[t.fqn]), f.A[2])
		if mc == nil {
			f.A[2] = fmt.Sprintf("f%d%s", fi, f.A[2])
		}
		x.Body = append(x.Body, f)
	}
	if len(x.Body) == 0 {
		return nil
	}
	return x
}

func (g *b09Gen) genFile(fi int, nfiles int) *b09N {
	syn := Pick(g.r, []string{"2", "3", "e", "2", "3"})
	pkg := Pick(g.r, b09Pkgs)
	g.syns = append(g.syns, syn)
	g.pkgs = append(g.pkgs, pkg)
	f := &b09N{K: 'F', A: []string{fmt.Sprintf("f%d.proto", fi), syn, pkg}}
	var deps []int
	var pub []bool
	first := 0
	if g.useOpts {
		// file 0 is b09o.proto
		first = 1
		deps = append(deps, 0)
		pub = append(pub, false)
		f.Body = append(f.Body, b09Leaf('I', "b09o.proto"))
	}
	for j := first; j < fi; j++ {
		if g.r.Chance(2, 3) {
			p := g.r.Chance(1, 3)
			deps = append(deps, j)
			pub = append(pub, p)
			k := byte('I')
			if p {
				k = 'P'
			}
			f.Body = append(f.Body, b09Leaf(k, g.files[j].A[0]))
		}
	}
	g.deps = append(g.deps, deps)
	g.pub = append(g.pub, pub)
	// file options
	if g.r.Chance(1, 4) {
		f.Body = append(f.Body, b09Leaf('o', Pick(g.r, []string{`java_package = "com.x"`, "optimize_for = SPEED", "cc_enable_arenas = true", "deprecated = true", `go_package = "x/y;z"`})))
	}
	if syn == "e" && g.r.Chance(1, 4) {
		f.Body = append(f.Body, b09Leaf('o', Pick(g.r, []string{"features.field_presence = IMPLICIT", "features.repeated_field_encoding = EXPANDED", "features.json_format = LEGACY_BEST_EFFORT", "features.utf8_validation = NONE"})))
	}
	f.Body = append(f.Body, g.customStmts("file", 3)...)
	if g.pkgUse[pkg] == nil {
		g.pkgUse[pkg] = map[string]bool{}
	}
	names := g.pkgUse[pkg]
	vals := names
	var plans []*b09MsgPlan
	for k := 1 + g.r.Intn(3); k > 0; k-- {
		plans = append(plans, g.planMsg(fi, nil, names, 0))
	}
	var enums []*b09N
	for k := g.r.Intn(3); k > 0; k-- {
		en := b09PickUnique(g.r, b09EnumNames, names)
		n, t := g.genEnum(fi, en, strings.TrimSuffix(strings.TrimPrefix(pkg+".", "-."), "."), vals)
		enums = append(enums, n)
		g.types = append(g.types, t)
	}
	var decls []*b09N
	for _, pl := range plans {
		decls = append(decls, g.fillMsg(fi, pl))
	}
	decls = append(decls, enums...)
	if x := g.genExtend(fi, nil); x != nil && g.r.Chance(1, 2) {
		decls = append(decls, x)
	}
	if g.r.Chance(1, 3) {
		s := &b09N{K: 'S', A: []string{b09PickUnique(g.r, []string{"Svc", "Api"}, names)}}
		if g.r.Chance(1, 6) {
			s.Body = append(s.Body, b09Leaf('o', "deprecated = true"))
		}
		s.Body = append(s.Body, g.customStmts("service", 4)...)
		mu := map[string]bool{}
		for k := g.r.Intn(4); k > 0; k-- {
			in := g.pickType(fi, true, false)
			out := g.pickType(fi, true, false)
			if in == nil || out == nil {
				break
			}
			c := &b09N{K: 'C', A: []string{b09PickUnique(g.r, []string{"Get", "Put", "List", "watch"}, mu),
				g.spell(in.fqn, pkg, []string{s.A[0]}), g.spell(out.fqn, pkg, []string{s.A[0]}),
				Pick(g.r, []string{"0", "1"}), Pick(g.r, []string{"0", "1"})}}
			g.bind(c, 1, 2)
			switch g.r.Intn(3) {
			case 0:
				c.NoBr = true
			case 1:
				// empty braces
			case 2:
				if g.r.Chance(1, 2) {
					c.Opts = append(c.Opts, "idempotency_level = "+Pick(g.r, []string{"IDEMPOTENT", "NO_SIDE_EFFECTS"}))
				}
				if g.r.Chance(1, 4) {
					c.Opts = append(c.Opts, "deprecated = true")
				}
				c.Opts = append(c.Opts, g.customList("method", 3)...)
			}
			s.Body = append(s.Body, c)
		}
		decls = append(decls, s)
	}
	for i := len(decls) - 1; i > 0; i-- {
		j := g.r.Intn(i + 1)
		decls[i], decls[j] = decls[j], decls[i]
	}
	f.Body = append(f.Body, decls...)
	return f
}

// b09GenWorkspace generates one workspace from a seed. dotted forces leading-dot
// fully-qualified references (always resolvable).
func b09GenWorkspace(seed uint64, nfiles int, useOpts, dotted, risky bool) []*b09N {
	g := &b09Gen{r: NewRand(seed), sp: NewRand(seed ^ 0x5bd1e995), dotted: dotted, useOpts: useOpts, risky: risky, extUsed: map[string]map[int]bool{}, pkgUse: map[string]map[string]bool{}}
	if useOpts {
		g.files = append(g.files, b09OptsFile())
		g.syns = append(g.syns, "2")
		g.pkgs = append(g.pkgs, "b09o")
		g.deps = append(g.deps, nil)
		g.pub = append(g.pub, nil)
		g.types = append(g.types, &b09Type{fqn: "b09o.Cfg", file: 0, syn: "2"}, &b09Type{fqn: "b09o.Kind", file: 0, isEnum: true, zero1st: true, vals: []string{"K0", "K1", "K2"}, syn: "2"})
		nfiles++
	}
	for fi := len(g.files); fi < nfiles; fi++ {
		g.files = append(g.files, g.genFile(fi, nfiles))
	}
	if !dotted && b09Accepted(g.files) {
		g.respell(12)
	}
	return g.files
}
