package engines

// miniproto: engines "link" (C01, C02) and "dual" (C27).
//
// A case is one op line `ws <records...>` describing a multi-file workspace in an abstract syntax
// ("MiniProto", see lean/PCV/Model/MiniProto.lean). Exec renders the workspace to .proto source
// text, compiles it with the REAL compilers and answers
//
//	link:  ok <projection of every FileDescriptorProto>   |   err ~ <class> | <message>
//	dual:  <stable: ok|err> ~ new=<ok|err> <same|diff ...>
//
// The Lean model predicts the compared part from the abstract syntax alone (it never sees source
// text); the Lean oracle evaluates the declarative reference semantics on the op and judges the
// implementation's answer.

import (
	"context"
	"encoding/hex"
	"fmt"
	"regexp"
	"sort"
	"strconv"
	"strings"

	"google.golang.org/protobuf/proto"
	"google.golang.org/protobuf/types/descriptorpb"

	"github.com/bufbuild/protocompile"
	"github.com/bufbuild/protocompile/experimental/fdp"
	"github.com/bufbuild/protocompile/experimental/incremental"
	"github.com/bufbuild/protocompile/experimental/incremental/queries"
	"github.com/bufbuild/protocompile/experimental/ir"
	"github.com/bufbuild/protocompile/experimental/report"
	"github.com/bufbuild/protocompile/experimental/source"
	"github.com/bufbuild/protocompile/linker"
)

// ---------------------------------------------------------------- abstract syntax

// mpRec is one record of the wire format: a kind and a fixed number of arguments.
type mpRec struct {
	K string
	A []string
}

// arity of every record kind
var mpArity = map[string]int{
	"Q":   1, // note (mutation name); ignored by both sides
	"F":   3, // path syntax(2|3|e|n) package(-|dotted)
	"I":   2, // path kind(n|p|w)
	"BF":  0, // body of the file (top-level elements)
	"BM":  1, // body of message #k of this file (k = number of preceding BM): name
	"BE":  1, // body of enum #k: name
	"BS":  1, // body of service #k: name
	"c":   1, // nested/top-level message: index
	"n":   1, // nested/top-level enum: index
	"s":   1, // service: index
	"f":   8, // ctx(-|o|x) label(-|o|q|r) type name number json(-|h<hex>) packed(-|t|f) default(-|i<int>|b<t/f>|s<hex>|e<ident>)
	"g":   5, // ctx label Name number bodyMsgIndex
	"m":   4, // keyType valueType name number
	"o":   1, // oneof name (members follow with ctx o)
	"x":   1, // extend block extendee (members follow with ctx x)
	"er":  2, // extension range: start end(-|max|int)
	"rr":  2, // reserved range: start end(-|max|int)
	"rn":  2, // reserved name: h<hex> style(s|i)
	"v":   2, // enum value: name number
	"aa":  1, // option allow_alias = t|f
	"ms":  1, // option message_set_wire_format = t|f (message body, at this position)
	"rpc": 5, // name input output clientStreaming(0|1) serverStreaming(0|1)
}

type mpBody struct {
	Name  string
	Elems []mpRec
}

type mpFile struct {
	Path, Syntax, Pkg string
	Imports           []mpRec
	Top               []mpRec
	Msgs, Enums, Svcs []*mpBody
}

type mpWS struct {
	Note  string
	Files []*mpFile
}

func mpHexS(s string) string { return "h" + hex.EncodeToString([]byte(s)) }

func mpUnHexS(s string) (string, bool) {
	if !strings.HasPrefix(s, "h") {
		return "", false
	}
	b, err := hex.DecodeString(s[1:])
	if err != nil {
		return "", false
	}
	return string(b), true
}

func (w *mpWS) op() string {
	var t []string
	t = append(t, "ws")
	add := func(k string, a ...string) { t = append(append(t, k), a...) }
	if w.Note != "" {
		add("Q", w.Note)
	}
	recs := func(rs []mpRec) {
		for _, r := range rs {
			add(r.K, r.A...)
		}
	}
	for _, f := range w.Files {
		pkg := f.Pkg
		if pkg == "" {
			pkg = "-"
		}
		add("F", f.Path, f.Syntax, pkg)
		recs(f.Imports)
		add("BF")
		recs(f.Top)
		for _, m := range f.Msgs {
			add("BM", m.Name)
			recs(m.Elems)
		}
		for _, e := range f.Enums {
			add("BE", e.Name)
			recs(e.Elems)
		}
		for _, s := range f.Svcs {
			add("BS", s.Name)
			recs(s.Elems)
		}
	}
	return strings.Join(t, " ")
}

func mpParse(op string) (*mpWS, bool) {
	t := strings.Fields(op)
	if len(t) == 0 || t[0] != "ws" {
		return nil, false
	}
	t = t[1:]
	w := &mpWS{}
	var cur *mpFile
	var body *[]mpRec
	for len(t) > 0 {
		k := t[0]
		n, ok := mpArity[k]
		if !ok || len(t) < 1+n {
			return nil, false
		}
		r := mpRec{K: k, A: append([]string{}, t[1:1+n]...)}
		t = t[1+n:]
		switch k {
		case "Q":
			w.Note = r.A[0]
		case "F":
			cur = &mpFile{Path: r.A[0], Syntax: r.A[1], Pkg: r.A[2]}
			if cur.Pkg == "-" {
				cur.Pkg = ""
			}
			w.Files = append(w.Files, cur)
			body = nil
		case "I":
			if cur == nil || body != nil {
				return nil, false
			}
			cur.Imports = append(cur.Imports, r)
		case "BF":
			if cur == nil {
				return nil, false
			}
			body = &cur.Top
		case "BM", "BE", "BS":
			if cur == nil {
				return nil, false
			}
			b := &mpBody{Name: r.A[0]}
			switch k {
			case "BM":
				cur.Msgs = append(cur.Msgs, b)
			case "BE":
				cur.Enums = append(cur.Enums, b)
			default:
				cur.Svcs = append(cur.Svcs, b)
			}
			body = &b.Elems
		default:
			if body == nil {
				return nil, false
			}
			*body = append(*body, r)
		}
	}
	return w, true
}

// ---------------------------------------------------------------- rendering to .proto source

func mpQuote(s string) string {
	var b strings.Builder
	b.WriteByte('"')
	for i := 0; i < len(s); i++ {
		c := s[i]
		if c < 0x20 || c > 0x7e || c == '"' || c == '\\' || c == '\'' {
			fmt.Fprintf(&b, "\\x%02x", c)
		} else {
			b.WriteByte(c)
		}
	}
	b.WriteByte('"')
	return b.String()
}

type mpRenderer struct {
	f   *mpFile
	b   strings.Builder
	bad bool
}

func (r *mpRenderer) label(l string) string {
	switch l {
	case "o":
		return "optional "
	case "q":
		return "required "
	case "r":
		return "repeated "
	}
	return ""
}

func (r *mpRenderer) fieldOpts(a []string) string {
	var opts []string
	if a[5] != "-" {
		s, ok := mpUnHexS(a[5])
		if !ok {
			r.bad = true
		}
		opts = append(opts, "json_name = "+mpQuote(s))
	}
	switch a[6] {
	case "t":
		opts = append(opts, "packed = true")
	case "f":
		opts = append(opts, "packed = false")
	}
	if a[7] != "-" && len(a[7]) >= 1 {
		v := a[7][1:]
		switch a[7][0] {
		case 'i', 'e':
			opts = append(opts, "default = "+v)
		case 'b':
			if v == "t" {
				opts = append(opts, "default = true")
			} else {
				opts = append(opts, "default = false")
			}
		case 's':
			s, ok := mpUnHexS("h" + v)
			if !ok {
				r.bad = true
			}
			opts = append(opts, "default = "+mpQuote(s))
		default:
			r.bad = true
		}
	}
	if len(opts) == 0 {
		return ""
	}
	return " [" + strings.Join(opts, ", ") + "]"
}

func (r *mpRenderer) rangeText(a []string) string {
	switch a[1] {
	case "-":
		return a[0]
	default:
		return a[0] + " to " + a[1]
	}
}

// elems renders a body; members of oneof/extend blocks are the records with ctx o/x that follow
// their `o`/`x` record.
func (r *mpRenderer) elems(es []mpRec, ind string, depth int) {
	if depth > 40 {
		r.bad = true
		return
	}
	open := "" // "", "o", "x"
	closeBlock := func() {
		if open != "" {
			r.b.WriteString(ind + "}\n")
			open = ""
		}
	}
	for _, e := range es {
		ctx := "-"
		if e.K == "f" || e.K == "g" {
			ctx = e.A[0]
		}
		if ctx == "-" || ctx != open {
			closeBlock()
			if ctx != "-" {
				// member without its container: not renderable
				r.bad = true
				return
			}
		}
		in := ind
		if open != "" {
			in = ind + "  "
		}
		switch e.K {
		case "c":
			i, err := strconv.Atoi(e.A[0])
			if err != nil || i < 0 || i >= len(r.f.Msgs) {
				r.bad = true
				return
			}
			m := r.f.Msgs[i]
			r.b.WriteString(in + "message " + m.Name + " {\n")
			r.elems(m.Elems, in+"  ", depth+1)
			r.b.WriteString(in + "}\n")
		case "n":
			i, err := strconv.Atoi(e.A[0])
			if err != nil || i < 0 || i >= len(r.f.Enums) {
				r.bad = true
				return
			}
			en := r.f.Enums[i]
			r.b.WriteString(in + "enum " + en.Name + " {\n")
			r.elems(en.Elems, in+"  ", depth+1)
			r.b.WriteString(in + "}\n")
		case "s":
			i, err := strconv.Atoi(e.A[0])
			if err != nil || i < 0 || i >= len(r.f.Svcs) {
				r.bad = true
				return
			}
			sv := r.f.Svcs[i]
			r.b.WriteString(in + "service " + sv.Name + " {\n")
			r.elems(sv.Elems, in+"  ", depth+1)
			r.b.WriteString(in + "}\n")
		case "f":
			r.b.WriteString(in + r.label(e.A[1]) + e.A[2] + " " + e.A[3] + " = " + e.A[4] + r.fieldOpts(e.A) + ";\n")
		case "g":
			i, err := strconv.Atoi(e.A[4])
			if err != nil || i < 0 || i >= len(r.f.Msgs) {
				r.bad = true
				return
			}
			r.b.WriteString(in + r.label(e.A[1]) + "group " + e.A[2] + " = " + e.A[3] + " {\n")
			r.elems(r.f.Msgs[i].Elems, in+"  ", depth+1)
			r.b.WriteString(in + "}\n")
		case "m":
			r.b.WriteString(in + "map<" + e.A[0] + ", " + e.A[1] + "> " + e.A[2] + " = " + e.A[3] + ";\n")
		case "o":
			r.b.WriteString(in + "oneof " + e.A[0] + " {\n")
			open = "o"
		case "x":
			r.b.WriteString(in + "extend " + e.A[0] + " {\n")
			open = "x"
		case "er":
			r.b.WriteString(in + "extensions " + r.rangeText(e.A) + ";\n")
		case "rr":
			r.b.WriteString(in + "reserved " + r.rangeText(e.A) + ";\n")
		case "rn":
			s, ok := mpUnHexS(e.A[0])
			if !ok {
				r.bad = true
			}
			if e.A[1] == "i" {
				r.b.WriteString(in + "reserved " + s + ";\n")
			} else {
				r.b.WriteString(in + "reserved " + mpQuote(s) + ";\n")
			}
		case "v":
			r.b.WriteString(in + e.A[0] + " = " + e.A[1] + ";\n")
		case "aa":
			v := "false"
			if e.A[0] == "t" {
				v = "true"
			}
			r.b.WriteString(in + "option allow_alias = " + v + ";\n")
		case "ms":
			v := "false"
			if e.A[0] == "t" {
				v = "true"
			}
			r.b.WriteString(in + "option message_set_wire_format = " + v + ";\n")
		case "rpc":
			i, o := e.A[1], e.A[2]
			if e.A[3] == "1" {
				i = "stream " + i
			}
			if e.A[4] == "1" {
				o = "stream " + o
			}
			r.b.WriteString(in + "rpc " + e.A[0] + "(" + i + ") returns (" + o + ");\n")
		default:
			r.bad = true
		}
	}
	closeBlock()
}

func mpRender(f *mpFile) (string, bool) {
	r := &mpRenderer{f: f}
	switch f.Syntax {
	case "2":
		r.b.WriteString("syntax = \"proto2\";\n")
	case "3":
		r.b.WriteString("syntax = \"proto3\";\n")
	case "e":
		r.b.WriteString("edition = \"2023\";\n")
	case "n":
	default:
		return "", false
	}
	if f.Pkg != "" {
		r.b.WriteString("package " + f.Pkg + ";\n")
	}
	for _, i := range f.Imports {
		switch i.A[1] {
		case "p":
			r.b.WriteString("import public " + mpQuote(i.A[0]) + ";\n")
		case "w":
			r.b.WriteString("import weak " + mpQuote(i.A[0]) + ";\n")
		default:
			r.b.WriteString("import " + mpQuote(i.A[0]) + ";\n")
		}
	}
	r.elems(f.Top, "", 0)
	return r.b.String(), !r.bad
}

func mpSources(w *mpWS) (map[string]string, []string, bool) {
	src := map[string]string{}
	var names []string
	for _, f := range w.Files {
		s, ok := mpRender(f)
		if !ok {
			return nil, nil, false
		}
		if _, dup := src[f.Path]; dup {
			return nil, nil, false
		}
		src[f.Path] = s
		names = append(names, f.Path)
	}
	return src, names, true
}

// ---------------------------------------------------------------- compiling (stable + experimental)

func mpCompileStable(src map[string]string, names []string) ([]*descriptorpb.FileDescriptorProto, error) {
	c := protocompile.Compiler{
		// the workspace's own files first; google/protobuf/*.proto from the standard imports
		Resolver:       protocompile.WithStandardImports(&protocompile.SourceResolver{Accessor: protocompile.SourceAccessorFromMap(src)}),
		MaxParallelism: 1,
	}
	res, err := c.Compile(context.Background(), names...)
	if err != nil {
		return nil, err
	}
	var out []*descriptorpb.FileDescriptorProto
	for _, f := range res {
		r, ok := f.(linker.Result)
		if !ok {
			return nil, fmt.Errorf("not a linker.Result: %T", f)
		}
		out = append(out, r.FileDescriptorProto())
	}
	return out, nil
}

// mpCompileExperimental drives the experimental compiler exactly like
// internal/testing/dualcompiler.newCompilerAdapter does.
func mpCompileExperimental(src map[string]string, names []string) ([]*descriptorpb.FileDescriptorProto, error) {
	m := source.NewMap(nil)
	for k, v := range src {
		m.Add(k, v)
	}
	opener := &source.Openers{source.WKTs(), m}
	sess := &ir.Session{}
	qs := make([]incremental.Query[*ir.File], len(names))
	for i, n := range names {
		qs[i] = queries.IR{Opener: opener, Session: sess, Path: n}
	}
	results, rpt, err := incremental.Run(context.Background(), incremental.New(), qs...)
	if err != nil {
		return nil, err
	}
	var irs []*ir.File
	for i, r := range results {
		if r.Fatal != nil {
			return nil, fmt.Errorf("compilation failed for %s: %w", names[i], r.Fatal)
		}
		irs = append(irs, r.Value)
	}
	for _, d := range rpt.Diagnostics {
		if d.Level() == report.Error || d.Level() == report.ICE {
			return nil, fmt.Errorf("%v", d.Message())
		}
	}
	var out []*descriptorpb.FileDescriptorProto
	for _, f := range irs {
		data, err := fdp.DescriptorProtoBytes(f)
		if err != nil {
			return nil, err
		}
		x := &descriptorpb.FileDescriptorProto{}
		if err := proto.Unmarshal(data, x); err != nil {
			return nil, err
		}
		out = append(out, x)
	}
	return out, nil
}

// ---------------------------------------------------------------- error classes

type mpErrClass struct {
	re    *regexp.Regexp
	class string
}

var mpErrClasses = []mpErrClass{
	{regexp.MustCompile(`tag number \d+ must be greater than zero`), "tag-zero"},
	{regexp.MustCompile(`is higher than max allowed tag number`), "tag-too-high"},
	{regexp.MustCompile(`is in disallowed reserved range`), "tag-19000"},
	{regexp.MustCompile(`should have a name that starts with a capital letter`), "group-lowercase"},
	{regexp.MustCompile(`range start -?\d+ is out of range`), "range-oob"},
	{regexp.MustCompile(`range end -?\d+ is out of range`), "range-oob"},
	{regexp.MustCompile(`is invalid: start must be <= end`), "range-inverted"},
	{regexp.MustCompile(`is out of range for`), "default-range"},
	{regexp.MustCompile(`expecting \w+( name)?, got`), "default-type"},
	{regexp.MustCompile(`has no value named`), "default-enum-unknown"},
	{regexp.MustCompile(`panic handling`), "panic"},
	{regexp.MustCompile(`value -?\d+ is out of range`), "enum-value-oob"},
	{regexp.MustCompile(`is already reserved at`), "rsvd-name-dup"},
	{regexp.MustCompile(`must use identifiers, not string literals`), "rsvd-name-style"},
	{regexp.MustCompile(`must use string literals, not identifiers`), "rsvd-name-style"},
	{regexp.MustCompile(`message nesting depth must be less than 32`), "depth"},
	{regexp.MustCompile(`oneof must contain at least one field`), "oneof-empty"},
	{regexp.MustCompile(`extend sections must define at least one extension`), "extend-empty"},
	{regexp.MustCompile(`was already imported at`), "import-dup"},
	{regexp.MustCompile(`extension ranges are not allowed in proto3`), "p3-ext-range"},
	{regexp.MustCompile(`message .*: reserved ranges overlap`), "rsvd-overlap"},
	{regexp.MustCompile(`extension ranges overlap`), "ext-overlap"},
	{regexp.MustCompile(`overlaps reserved range`), "ext-rsvd-overlap"},
	{regexp.MustCompile(`is not a valid identifier`), "rsvd-name-invalid"},
	{regexp.MustCompile(`field .* is using a reserved name`), "field-rsvd-name"},
	{regexp.MustCompile(`both have the same tag`), "dup-tag"},
	{regexp.MustCompile(`which is in reserved range`), "in-rsvd-range"},
	{regexp.MustCompile(`which is in extension range`), "tag-in-ext-range"},
	{regexp.MustCompile(`enums must define at least one value`), "enum-empty"},
	{regexp.MustCompile(`proto3 requires that first value of enum have numeric value zero`), "p3-enum-first"},
	{regexp.MustCompile(`both have the same numeric value`), "enum-dup-number"},
	{regexp.MustCompile(`allow_alias is true but no values are aliases`), "alias-unused"},
	{regexp.MustCompile(`enum .*: reserved ranges overlap`), "enum-rsvd-overlap"},
	{regexp.MustCompile(`value .* is using a reserved name`), "value-rsvd-name"},
	{regexp.MustCompile(`groups are not allowed in proto3 or editions`), "group-non-p2"},
	{regexp.MustCompile(`label 'required' is not allowed in proto3 or editions`), "required-non-p2"},
	{regexp.MustCompile(`label 'optional' is not allowed in editions`), "optional-editions"},
	{regexp.MustCompile(`packed option is not allowed in editions`), "packed-editions"},
	{regexp.MustCompile(`default values are not allowed in proto3`), "p3-default"},
	{regexp.MustCompile(`field has no label; proto2 requires explicit`), "p2-no-label"},
	{regexp.MustCompile(`extension fields cannot be 'required'`), "ext-required"},
	{regexp.MustCompile(`message-set wire format are not allowed with proto3`), "msgset-proto3"},
	{regexp.MustCompile(`message-set wire format cannot contain non-extension fields`), "msgset-field"},
	{regexp.MustCompile(`message-set wire format must contain at least one extension range`), "msgset-no-ext-range"},
	{regexp.MustCompile(`message-set wire format cannot contain scalar extensions`), "msgset-scalar-ext"},
	{regexp.MustCompile(`message-set wire format cannot contain repeated extensions`), "msgset-repeated-ext"},
	{regexp.MustCompile(`cannot be defined more than once`), "option-dup"},
	{regexp.MustCompile(`package name \(with whitespace removed\) must be less than 512`), "pkg-too-long"},
	{regexp.MustCompile(`package name may not contain more than 100 periods`), "pkg-too-deep"},
	{regexp.MustCompile(`cycle found in imports`), "import-cycle"},
	{regexp.MustCompile(`file does not exist|no such file|not found`), "import-missing"},
	{regexp.MustCompile(`symbol ".*" already defined`), "dup-symbol"},
	{regexp.MustCompile(`unknown extendee type`), "extendee-unknown"},
	{regexp.MustCompile(`extendee is invalid`), "extendee-not-message"},
	{regexp.MustCompile(`is not in valid range for extended type`), "ext-tag-not-in-range"},
	{regexp.MustCompile(`extension with tag \d+ for message .* already defined`), "dup-ext-number"},
	{regexp.MustCompile(`extend blocks in proto3 can only be used to define custom options`), "p3-extend"},
	{regexp.MustCompile(`unknown type`), "type-unknown"},
	{regexp.MustCompile(`invalid type: .* not a message or enum`), "type-not-type"},
	{regexp.MustCompile(`is a synthetic map entry and may not be referenced explicitly`), "map-entry-ref"},
	{regexp.MustCompile(`unknown (request|response) type`), "method-type-unknown"},
	{regexp.MustCompile(`invalid (request|response) type`), "method-type-not-message"},
	{regexp.MustCompile(`option json_name is not allowed on extensions`), "json-on-ext"},
	{regexp.MustCompile(`json_name value cannot start with`), "json-brackets"},
	{regexp.MustCompile(`default value cannot be set because field is repeated`), "default-repeated"},
	{regexp.MustCompile(`default value cannot be set because field is a message`), "default-message"},
	{regexp.MustCompile(`packed option is only allowed on repeated fields`), "packed-non-repeated"},
	{regexp.MustCompile(`packed option is only allowed on numeric, boolean, and enum fields`), "packed-non-numeric"},
	{regexp.MustCompile(`packed option cannot be used with editions`), "packed-editions"},
	{regexp.MustCompile(`cannot use closed enum .* in a field with implicit presence`), "closed-enum-implicit"},
	{regexp.MustCompile(`default value is not allowed on fields with implicit presence`), "default-implicit"},
	{regexp.MustCompile(`JSON name .* conflicts with`), "json-conflict"},
	{regexp.MustCompile(`first value of open enum .* must have numeric value zero`), "open-enum-first"},
	{regexp.MustCompile(`camel-case name .* conflicts with`), "enum-json-conflict"},
	{regexp.MustCompile(`syntax error`), "syntax-error"},
}

func mpClassify(msg string) string {
	for _, c := range mpErrClasses {
		if c.re.MatchString(msg) {
			return c.class
		}
	}
	return "other"
}

// ---------------------------------------------------------------- projection of descriptors

func mpOptS(p *string) string {
	if p == nil {
		return "-"
	}
	return mpHexS(*p)
}

func mpName(s string) string {
	if s == "" {
		return "-"
	}
	return s
}

func mpInts(xs []int32) string {
	if len(xs) == 0 {
		return "-"
	}
	s := make([]string, len(xs))
	for i, x := range xs {
		s[i] = strconv.Itoa(int(x))
	}
	return strings.Join(s, ",")
}

func mpProjField(t *[]string, tag string, f *descriptorpb.FieldDescriptorProto) {
	oo := "-"
	if f.OneofIndex != nil {
		oo = strconv.Itoa(int(f.GetOneofIndex()))
	}
	p3 := "0"
	if f.GetProto3Optional() {
		p3 = "1"
	}
	packed := "-"
	if f.Options != nil && f.Options.Packed != nil {
		if f.Options.GetPacked() {
			packed = "t"
		} else {
			packed = "f"
		}
	}
	num := "-"
	if f.Number != nil {
		num = strconv.Itoa(int(f.GetNumber()))
	}
	lbl := "0"
	if f.Label != nil {
		lbl = strconv.Itoa(int(f.GetLabel()))
	}
	ty := "0"
	if f.Type != nil {
		ty = strconv.Itoa(int(f.GetType()))
	}
	*t = append(*t, tag, f.GetName(), num, lbl, ty, mpName(f.GetTypeName()), mpName(f.GetExtendee()),
		mpOptS(f.JsonName), oo, p3, packed, mpOptS(f.DefaultValue))
}

func mpProjEnum(t *[]string, prefix string, e *descriptorpb.EnumDescriptorProto) {
	aa := "-"
	if e.Options != nil && e.Options.AllowAlias != nil {
		if e.Options.GetAllowAlias() {
			aa = "t"
		} else {
			aa = "f"
		}
	}
	*t = append(*t, "E", prefix+e.GetName(), aa)
	for _, v := range e.Value {
		*t = append(*t, "v", v.GetName(), strconv.Itoa(int(v.GetNumber())))
	}
	for _, r := range e.ReservedRange {
		*t = append(*t, "rr", strconv.Itoa(int(r.GetStart())), strconv.Itoa(int(r.GetEnd())))
	}
	for _, n := range e.ReservedName {
		*t = append(*t, "rn", mpHexS(n))
	}
}

func mpProjMsg(t *[]string, prefix string, m *descriptorpb.DescriptorProto) {
	me := "0"
	if m.GetOptions().GetMapEntry() {
		me = "1"
	}
	ms := "-"
	if m.Options != nil && m.Options.MessageSetWireFormat != nil {
		ms = "f"
		if m.Options.GetMessageSetWireFormat() {
			ms = "t"
		}
	}
	*t = append(*t, "M", prefix+m.GetName(), me, ms)
	for _, f := range m.Field {
		mpProjField(t, "f", f)
	}
	for _, f := range m.Extension {
		mpProjField(t, "x", f)
	}
	for _, o := range m.OneofDecl {
		*t = append(*t, "o", o.GetName())
	}
	for _, r := range m.ExtensionRange {
		*t = append(*t, "er", strconv.Itoa(int(r.GetStart())), strconv.Itoa(int(r.GetEnd())))
	}
	for _, r := range m.ReservedRange {
		*t = append(*t, "rr", strconv.Itoa(int(r.GetStart())), strconv.Itoa(int(r.GetEnd())))
	}
	for _, n := range m.ReservedName {
		*t = append(*t, "rn", mpHexS(n))
	}
	p := prefix + m.GetName() + "."
	for _, e := range m.EnumType {
		mpProjEnum(t, p, e)
	}
	for _, n := range m.NestedType {
		mpProjMsg(t, p, n)
	}
}

// mpProject flattens a FileDescriptorProto onto the modelled fields (pre-order, full names).
func mpProject(fd *descriptorpb.FileDescriptorProto) []string {
	var t []string
	deps := "-"
	if len(fd.Dependency) > 0 {
		deps = strings.Join(fd.Dependency, ",")
	}
	syn := "-"
	if fd.Syntax != nil {
		syn = fd.GetSyntax()
	}
	if fd.Edition != nil {
		syn += ":" + strconv.Itoa(int(fd.GetEdition()))
	}
	t = append(t, "F", fd.GetName(), mpName(fd.GetPackage()), syn, deps, mpInts(fd.PublicDependency), mpInts(fd.WeakDependency))
	p := ""
	if fd.GetPackage() != "" {
		p = fd.GetPackage() + "."
	}
	for _, m := range fd.MessageType {
		mpProjMsg(&t, p, m)
	}
	for _, e := range fd.EnumType {
		mpProjEnum(&t, p, e)
	}
	for _, f := range fd.Extension {
		mpProjField(&t, "x", f)
	}
	for _, s := range fd.Service {
		t = append(t, "S", p+s.GetName())
		for _, m := range s.Method {
			cs, ss := "0", "0"
			if m.GetClientStreaming() {
				cs = "1"
			}
			if m.GetServerStreaming() {
				ss = "1"
			}
			t = append(t, "rpc", m.GetName(), mpName(m.GetInputType()), mpName(m.GetOutputType()), cs, ss)
		}
	}
	return t
}

func mpProjectAll(fds []*descriptorpb.FileDescriptorProto) string {
	var t []string
	for _, fd := range fds {
		t = append(t, mpProject(fd)...)
	}
	return strings.Join(t, " ")
}

// ---------------------------------------------------------------- engines

type mpLinkEngine struct{}
type mpDualEngine struct{}

func init() {
	Register("link", func() Engine { return mpLinkEngine{} })
	Register("dual", func() Engine { return mpDualEngine{} })
}

func (mpLinkEngine) Name() string { return "link" }
func (mpLinkEngine) Reset()       {}
func (mpDualEngine) Name() string { return "dual" }
func (mpDualEngine) Reset()       {}

func mpErrAnswer(err error) string {
	msg := err.Error()
	return "err ~ " + mpClassify(msg) + " | " + Canon(msg)
}

func (mpLinkEngine) Exec(op string) string {
	if ans, ok := mpExecAux(op); ok {
		return ans
	}
	w, ok := mpParse(op)
	if !ok {
		return "bad-op"
	}
	src, names, ok := mpSources(w)
	if !ok {
		return "bad-op"
	}
	fds, err := mpCompileStable(src, names)
	if err != nil {
		return mpErrAnswer(err)
	}
	ans := "ok " + mpProjectAll(fds)
	if mpSynthDiverges(fds) {
		// counted in the evidence (op class …+doc-divergence); not part of the correspondence
		ans += " ~ doc-divergence=synthetic-oneof-name"
	}
	return ans
}

// mpSynthDivergesMsg says whether some synthetic oneof of the message (or of a nested one) is not
// named the way protoc's GenerateSyntheticOneofs would name it (names of fields and declared
// oneofs only): the divergence documented in parser/result.go processProto3OptionalFields.
func mpSynthDivergesMsg(m *descriptorpb.DescriptorProto) bool {
	synthetic := map[int32]bool{}
	for _, f := range m.Field {
		if f.GetProto3Optional() && f.OneofIndex != nil {
			synthetic[f.GetOneofIndex()] = true
		}
	}
	if len(synthetic) > 0 {
		names := map[string]bool{}
		for _, f := range m.Field {
			names[f.GetName()] = true
		}
		for i, o := range m.OneofDecl {
			if !synthetic[int32(i)] {
				names[o.GetName()] = true
			}
		}
		for _, f := range m.Field {
			if !f.GetProto3Optional() || f.OneofIndex == nil {
				continue
			}
			n := f.GetName()
			if !strings.HasPrefix(n, "_") {
				n = "_" + n
			}
			for names[n] {
				n = "X" + n
			}
			names[n] = true
			if idx := int(f.GetOneofIndex()); idx >= len(m.OneofDecl) || m.OneofDecl[idx].GetName() != n {
				return true
			}
		}
	}
	for _, n := range m.NestedType {
		if mpSynthDivergesMsg(n) {
			return true
		}
	}
	return false
}

func mpSynthDiverges(fds []*descriptorpb.FileDescriptorProto) bool {
	for _, fd := range fds {
		for _, m := range fd.MessageType {
			if mpSynthDivergesMsg(m) {
				return true
			}
		}
	}
	return false
}

var mpQuoted = regexp.MustCompile("`[^`]*`|\"[^\"]*\"|'[^']*'")
var mpNonWord = regexp.MustCompile(`[^a-z0-9]+`)

// mpCanonMsg turns a diagnostic message of the experimental compiler into a stable class:
// quoted names become Q, everything else is lower-cased and dash-separated.
func mpCanonMsg(msg string) string {
	m := mpQuoted.ReplaceAllString(msg, "Q")
	m = strings.Trim(mpNonWord.ReplaceAllString(strings.ToLower(m), "-"), "-")
	if len(m) > 70 {
		m = m[:70]
	}
	if m == "" {
		m = "empty"
	}
	return m
}

var mpDefinedAt = regexp.MustCompile(`^([^:]+):\d+:\d+: .* (?:already defined|already defined as a package) at ([^:]+):\d+:\d+`)

// mpDualClass refines the class of a stable-compiler error for the C27 oracle, so that a known
// difference between the two compilers can be told from a new one of the same rule.
func mpDualClass(msg string) string {
	c := mpClassify(msg)
	switch c {
	case "dup-symbol", "dup-ext-number":
		if strings.Contains(msg, "already defined as a package") {
			return c + "-vs-package"
		}
		if m := mpDefinedAt.FindStringSubmatch(msg); m != nil && m[1] != m[2] {
			return c + "-cross-file"
		}
		return c + "-same-file"
	case "type-unknown", "method-type-unknown", "extendee-unknown":
		if strings.Contains(msg, "resolved to") {
			return c + "-resolved-undefined"
		}
	case "default-type":
		if strings.Contains(msg, "expecting enum name, got") {
			return "default-enum-by-number"
		}
	}
	return c
}

// Exec of the dual engine: both compilers on the same sources. Compared with the model: the
// stable compiler's accept/reject. For the oracle: both outcomes and both projections.
func (mpDualEngine) Exec(op string) string {
	w, ok := mpParse(op)
	if !ok {
		return "bad-op"
	}
	src, names, ok := mpSources(w)
	if !ok {
		return "bad-op"
	}
	ofds, oerr := mpCompileStable(src, names)
	nfds, nerr := mpCompileExperimental(src, names)
	old, oldv, oldp := "ok", "ok", "-"
	if oerr != nil {
		old, oldv = "err", "err:"+mpDualClass(oerr.Error())
	} else {
		oldp = mpProjectAll(ofds)
	}
	newv, newp := "ok", "-"
	if nerr != nil {
		newv = "err:" + mpCanonMsg(nerr.Error())
	} else {
		newp = mpProjectAll(nfds)
	}
	full := "-"
	if oerr == nil && nerr == nil {
		full = "same"
		if len(ofds) != len(nfds) {
			full = "diff"
		} else {
			for i := range ofds {
				x := proto.Clone(ofds[i]).(*descriptorpb.FileDescriptorProto)
				y := proto.Clone(nfds[i]).(*descriptorpb.FileDescriptorProto)
				x.SourceCodeInfo, y.SourceCodeInfo = nil, nil
				if !proto.Equal(x, y) {
					full = "diff"
				}
			}
		}
	}
	return old + " ~ old=" + oldv + " new=" + newv + " full=" + full + " | " + oldp + " | " + newp
}

func mpNote(op string) string {
	t := strings.Fields(op)
	if len(t) >= 2 && (t[0] == "nm" || t[0] == "laws") {
		if t[0] == "nm" {
			return "nm-" + t[1]
		}
		return "protoset-laws"
	}
	if len(t) >= 3 && t[1] == "Q" {
		if strings.HasPrefix(t[2], "msgset:") {
			p := strings.Split(t[2], ":")
			if len(p) >= 3 {
				return "msgset-family:opt=" + p[1] + ",at=" + p[2]
			}
		}
		if strings.HasPrefix(t[2], "synth-multi") {
			return "synth-family:several-optional-fields"
		}
		if strings.HasPrefix(t[2], "synth:") {
			// synth:<F>:<kind>=<name>[:<kind>=<name>] -> family + kinds
			p := strings.Split(t[2], ":")
			c := "synth-family"
			for _, q := range p[2:] {
				c += ":" + strings.SplitN(q, "=", 2)[0]
			}
			return c
		}
		if strings.HasPrefix(t[2], "anchor:") {
			p := strings.Split(t[2], ":")
			if len(p) == 5 {
				return "anchor-" + p[1] + "(go=" + p[3] + ",protoc=" + p[4] + ")"
			}
		}
		return t[2]
	}
	return "valid"
}

func mpClassOf(op, ans string) string {
	v := "ok"
	if strings.HasSuffix(ans, " ~ doc-divergence=synthetic-oneof-name") {
		v = "ok+doc-divergence:synthetic-oneof-name"
	}
	if strings.HasPrefix(ans, "err") {
		v = "err"
		if i := strings.Index(ans, " ~ "); i >= 0 {
			rest := strings.Fields(ans[i+3:])
			if len(rest) > 0 {
				v = "err:" + rest[0]
			}
		}
	}
	return mpNote(op) + "=>" + v
}

func (mpLinkEngine) Class(op, ans string) string { return mpClassOf(op, ans) }
func (mpLinkEngine) Trivial(op, ans string) bool { return ans == "bad-op" }
func (mpDualEngine) Class(op, ans string) string {
	f := strings.Fields(ans)
	if len(f) >= 4 {
		return mpNote(op) + "=>" + f[2] + " " + f[3]
	}
	return mpNote(op) + "=>" + ans
}
func (mpDualEngine) Trivial(op, ans string) bool         { return ans == "bad-op" }
func (mpLinkEngine) Gen(r *Rand, tier string) [][]string { return mpGen(r, tier, false) }
func (mpDualEngine) Gen(r *Rand, tier string) [][]string { return mpGen(r, tier, true) }

var _ = sort.Strings
