package engines

import (
	"fmt"
	"strconv"
	"strings"
	"unicode/utf8"

	"github.com/bufbuild/protocompile/experimental/source"
	"github.com/bufbuild/protocompile/experimental/source/length"
)

// sourceloc: source.File lines / LineByOffset / LineOffsets / Location /
// InverseLocation and the unexported location / inverseLocation (C32).
//
// Ops (T is the hex text, "-" when empty; U is bytes|utf16|runes):
//
//	lines T            -> the line index, space separated
//	lbo T off          -> LineByOffset
//	lo T line          -> LineOffsets "start end"
//	loc U T off        -> File.Location "line col"
//	rloc U T off       -> location (no offset==0 shortcut) "line col"
//	inv U T line col   -> File.InverseLocation offset
//	rinv U T line col  -> inverseLocation (no 1:1 shortcut) offset
//	rt U T off         -> Location then InverseLocation "line col offset"
//
// The generator keeps offsets within [0,len] and lines within [1,len(lines)];
// outside of that the Go code panics on a slice or index expression.
type sourcelocEngine struct{}

func init() { Register("sourceloc", func() Engine { return sourcelocEngine{} }) }

func (sourcelocEngine) Name() string { return "sourceloc" }
func (sourcelocEngine) Reset()       {}

func slUnit(s string) (length.Unit, bool) {
	switch s {
	case "bytes":
		return length.Bytes, true
	case "utf16":
		return length.UTF16, true
	case "runes":
		return length.Runes, true
	}
	return 0, false
}

func (sourcelocEngine) Exec(op string) string {
	w := strings.Fields(op)
	if len(w) < 2 {
		return "bad-op"
	}
	atoi := func(s string) (int, bool) {
		n, err := strconv.Atoi(s)
		return n, err == nil
	}
	switch w[0] {
	case "lines":
		if len(w) != 2 {
			return "bad-op"
		}
		f := source.NewFile("x", string(UnHex(w[1])))
		ls := source.VerifLines(f)
		parts := make([]string, len(ls))
		for i, l := range ls {
			parts[i] = strconv.Itoa(l)
		}
		return strings.Join(parts, " ")
	case "lbo":
		if len(w) != 3 {
			return "bad-op"
		}
		off, ok := atoi(w[2])
		text := string(UnHex(w[1]))
		if !ok || off < 0 || off > len(text) {
			return "bad-op"
		}
		f := source.NewFile("x", text)
		return ConcFirst(slConc, func() string { return strconv.Itoa(f.LineByOffset(off)) })
	case "lo":
		if len(w) != 3 {
			return "bad-op"
		}
		line, ok := atoi(w[2])
		f := source.NewFile("x", string(UnHex(w[1])))
		if !ok || line < 1 || line > len(source.VerifLines(f)) {
			return "bad-op"
		}
		return ConcFirst(slConc, func() string {
			s, e := f.LineOffsets(line)
			return fmt.Sprintf("%d %d", s, e)
		})
	case "loc", "rloc", "rt":
		if len(w) != 4 {
			return "bad-op"
		}
		u, ok := slUnit(w[1])
		text := string(UnHex(w[2]))
		off, ok2 := atoi(w[3])
		if !ok || !ok2 || off < 0 || off > len(text) {
			return "bad-op"
		}
		f := source.NewFile("x", text)
		switch w[0] {
		case "loc":
			return ConcFirst(slConc, func() string {
				l := f.Location(off, u)
				if l.Offset != off {
					return fmt.Sprintf("offset-field %d", l.Offset)
				}
				return fmt.Sprintf("%d %d", l.Line, l.Column)
			})
		case "rloc":
			l := source.VerifLocation(f, off, u)
			if l.Offset != off {
				return fmt.Sprintf("offset-field %d", l.Offset)
			}
			return fmt.Sprintf("%d %d", l.Line, l.Column)
		default:
			return ConcFirst(slConc, func() string {
				l := f.Location(off, u)
				i := f.InverseLocation(l.Line, l.Column, u)
				if i.Line != l.Line || i.Column != l.Column {
					return fmt.Sprintf("linecol-fields %d %d", i.Line, i.Column)
				}
				return fmt.Sprintf("%d %d %d", l.Line, l.Column, i.Offset)
			})
		}
	case "inv", "rinv":
		if len(w) != 5 {
			return "bad-op"
		}
		u, ok := slUnit(w[1])
		f := source.NewFile("x", string(UnHex(w[2])))
		line, ok2 := atoi(w[3])
		col, ok3 := atoi(w[4])
		if !ok || !ok2 || !ok3 || line < 1 || line > len(source.VerifLines(f)) {
			return "bad-op"
		}
		if w[0] == "inv" {
			return strconv.Itoa(f.InverseLocation(line, col, u).Offset)
		}
		return strconv.Itoa(source.VerifInverseLocation(f, line, col, u))
	}
	return "bad-op"
}

func (sourcelocEngine) Trivial(op, ans string) bool {
	w := strings.Fields(op)
	for _, x := range w[1:] {
		if x == "-" {
			return true
		}
	}
	return false
}

func (sourcelocEngine) Class(op, ans string) string {
	w := strings.Fields(op)
	switch w[0] {
	case "lines", "lbo", "lo":
		return w[0]
	}
	return w[0] + "/" + w[1]
}

var slUnits = []string{"bytes", "utf16", "runes"}

// slConc: a fresh File's first lookup is made by this many goroutines at once (the line table is
// built lazily behind read-only looking methods).
const slConc = 4

// slBoundaries returns the rune-start offsets of text (Go decoding: an
// ill-formed byte is a one-byte character) plus len(text).
func slBoundaries(text string) map[int]bool {
	b := map[int]bool{len(text): true}
	for i := range text {
		b[i] = true
	}
	return b
}

// slCase builds the ops of one text. level 2: everything; level 1: line index,
// round trips at every boundary, raw inverse at line ends; level 0 (long
// texts): line index, round trips at offset 0, at every boundary within the
// last 8 bytes and at a random 1/8 of the other boundaries.
func slCase(text string, level int, r *Rand) []string {
	h := Hex([]byte(text))
	var ops []string
	add := func(f string, a ...any) { ops = append(ops, fmt.Sprintf(f, a...)) }
	bnd := slBoundaries(text)
	nl := strings.Count(text, "\n") + 1
	add("lines %s", h)
	for off := 0; off <= len(text); off++ {
		if bnd[off] {
			if level == 0 && off != 0 && off < len(text)-8 && !r.Chance(1, 8) {
				continue
			}
			for _, u := range slUnits {
				add("rt %s %s %d", u, h, off)
			}
			if level >= 2 {
				add("rloc %s %s %d", Pick(r, slUnits), h, off)
			}
		} else if level >= 2 {
			// Not a boundary: the forward direction alone (line number, truncated chunk).
			add("loc %s %s %d", Pick(r, slUnits), h, off)
		}
		if level >= 2 {
			add("lbo %s %d", h, off)
		}
	}
	if level >= 1 {
		lineStart := 0
		for line := 1; line <= nl; line++ {
			end := strings.IndexByte(text[lineStart:], '\n')
			var body string
			if end < 0 {
				body = text[lineStart:]
			} else {
				body = text[lineStart : lineStart+end+1]
			}
			if level >= 2 {
				add("lo %s %d", h, line)
			}
			// Columns around the line: before the first, every unit, a few past the end.
			units := map[string]int{"bytes": len(body), "runes": utf8.RuneCountInString(body), "utf16": 0}
			for _, c := range body {
				if c >= 0x10000 {
					units["utf16"] += 2
				} else {
					units["utf16"]++
				}
			}
			for _, u := range slUnits {
				if level >= 2 {
					for col := -1; col <= units[u]+3; col++ {
						k := "inv"
						if col%2 == 0 {
							k = "rinv"
						}
						add("%s %s %s %d %d", k, u, h, line, col)
					}
				} else {
					add("rinv %s %s %d %d", u, h, line, units[u]+1)
					add("inv %s %s %d %d", u, h, line, 1)
				}
			}
			lineStart += len(body)
		}
	}
	return ops
}

func slWords(alpha []string, n int, f func(string)) {
	var rec func(prefix string, d int)
	rec = func(prefix string, d int) {
		f(prefix)
		if d == 0 {
			return
		}
		for _, s := range alpha {
			rec(prefix+s, d-1)
		}
	}
	rec("", n)
}

func (sourcelocEngine) Gen(r *Rand, tier string) [][]string {
	thorough := tier == "thorough"
	var cases [][]string
	// 1. Exhaustive texts over ASCII, 2-, 3-, 4-byte characters and newline.
	main := []string{"a", "\u00e9", "\u20ac", "\U0001F600", "\n"}
	full, upTo := 3, 5
	if thorough {
		full, upTo = 5, 7
	}
	slWords(main, upTo, func(s string) {
		level := 1
		if utf8.RuneCountInString(s) <= full {
			level = 2
		}
		cases = append(cases, slCase(s, level, r))
	})
	// 2. Exhaustive texts with ill-formed UTF-8 (Go decodes each bad byte as one character).
	bad := []string{"a", "\n", "\x80", "\xff", "\xc3", "\xe2\x82", "\xed\xa0\x80", "\xf0\x9f\x98", "\u00e9"}
	nbad := 3
	if thorough {
		nbad = 4
	}
	slWords(bad, nbad, func(s string) {
		if s != "" {
			cases = append(cases, slCase(s, 2, r))
		}
	})
	// 3. Random longer texts; line structure and the end of file get most of the weight.
	wide := []string{"a", "b", " ", "\t", "\r", "\n", "\n", "\n", "\u00e9", "\u00df", "\u20ac", "\uffff", "\ufffd",
		"\U0001F600", "\U0010FFFF", "\U00010000", "\u0800", "\u007f", "\u0080", "\ud7ff", "\ue000",
		"\x80", "\xff", "\xc3", "\xe2\x82", "\xf4\x90\x80\x80"}
	cnt := 600
	if thorough {
		cnt = 20000
	}
	for i := 0; i < cnt; i++ {
		n := 1 + r.Intn(40)
		if (thorough && r.Chance(1, 100)) || (!thorough && i%30 == 0) {
			// long texts: many lines, so that the binary search has depth
			n = 100 + r.Intn(400)
		}
		alpha := wide
		if r.Chance(1, 2) {
			alpha = wide[:21] // well-formed only
		}
		var sb strings.Builder
		for j := 0; j < n; j++ {
			sb.WriteString(Pick(r, alpha))
		}
		s := sb.String()
		switch r.Intn(4) {
		case 0:
			s += "\n"
		case 1:
			s += Pick(r, main)
		}
		level := 1
		if n <= 12 {
			level = 2
		} else if n > 60 {
			level = 0
		}
		cases = append(cases, slCase(s, level, r))
	}
	return cases
}
