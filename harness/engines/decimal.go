package engines

import (
	"errors"
	"fmt"
	"math"
	"math/big"
	"regexp"
	"strconv"
	"strings"
	"sync"
	"sync/atomic"
	"time"

	"github.com/bufbuild/protocompile/verifhooks"
)

// decimal: internal/decimal Parse + Float64 + pow5 tables (C39).
//
// Ops (see lean/PCV/Engines/Decimal.lean for the protocol):
//
//	table <name> <i> | u64 <w> | mul <a> <b> | div <a> <b> | ldexp <a> <n> |
//	pow5 <a> <n> | log10 <hex> | f64 <numeral>
type decimalEngine struct{}

func init() { Register("decimal", func() Engine { return decimalEngine{} }) }

func (decimalEngine) Name() string { return "decimal" }
func (decimalEngine) Reset()       {}

func decBits(f float64) string { return fmt.Sprintf("%016x", math.Float64bits(f)) }

func decFloatArg(s string) (float64, bool) {
	if len(s) != 16 {
		return 0, false
	}
	b, err := strconv.ParseUint(s, 16, 64)
	if err != nil || b>>63 != 0 {
		return 0, false
	}
	f := math.Float64frombits(b)
	if math.IsNaN(f) {
		return 0, false
	}
	return f, true
}

// The lexer's numeral grammar (experimental/internal/lexer/number.go, fpRegexp), with an
// optional sign and at least one mantissa digit. Group 1: mantissa, 2: marker, 3: exponent.
var (
	decNumeralRE    = decFpRegexp("0-9", "eEpP", "")
	decHexNumeralRE = decFpRegexp("0-9a-fA-F", "pP", "0[xX]")
)

func decFpRegexp(digits, exp, prefix string) *regexp.Regexp {
	block := func(d string) string { return fmt.Sprintf(`(?:[%[1]s]+|[%[1]s][%[1]s_]+[%[1]s])`, d) }
	return regexp.MustCompile(fmt.Sprintf(`^[+-]?%[4]s((?:%[1]s)(?:\.(?:%[1]s)?)?|\.(?:%[1]s))(?:([%[2]s])([+-]?%[3]s))?$`,
		block(digits), exp, block("0-9"), prefix))
}

// decRef is strconv.ParseFloat's answer for a numeral of the lexer's grammar that the
// standard library can read (after dropping digit separators and supplying the "p0"
// that strconv insists on for hex floats); "-" otherwise.
func decRef(num string) string {
	var m []string
	hex := false
	if m = decHexNumeralRE.FindStringSubmatch(num); m != nil {
		hex = true
	} else if m = decNumeralRE.FindStringSubmatch(num); m == nil {
		return "-"
	}
	if !hex && (m[2] == "p" || m[2] == "P") {
		return "-"
	}
	s := strings.ReplaceAll(num, "_", "")
	if hex && m[2] == "" {
		s += "p0"
	}
	if !hex {
		s = decLongMantissa(s)
	}
	f, err := strconv.ParseFloat(s, 64)
	if err != nil && !errors.Is(err, strconv.ErrRange) {
		return "-"
	}
	return decBits(f)
}

// decLongMantissa works around a scaling error of strconv.ParseFloat (decimal.set
// caps the digit count at 800 and places the decimal point after the *stored* digits):
// a numeral with more than 800 digits before the point is rewritten, value unchanged, as
// 0.<digits> with the exponent raised by the number of integer digits. Shorter numerals
// are passed through untouched.
func decLongMantissa(s string) string {
	sign := ""
	if s != "" && (s[0] == '+' || s[0] == '-') {
		sign, s = s[:1], s[1:]
	}
	mant, exp := s, "0"
	if i := strings.IndexAny(s, "eE"); i >= 0 {
		mant, exp = s[:i], s[i+1:]
	}
	ip, fp := mant, ""
	if i := strings.IndexByte(mant, '.'); i >= 0 {
		ip, fp = mant[:i], mant[i+1:]
	}
	ip = strings.TrimLeft(ip, "0")
	if len(ip) <= 700 {
		return sign + s
	}
	e, ok := new(big.Int).SetString(strings.TrimPrefix(exp, "+"), 10)
	if !ok {
		return sign + s
	}
	e.Add(e, big.NewInt(int64(len(ip))))
	return sign + "0." + ip + fp + "e" + e.String()
}

func decB01(b bool) string {
	if b {
		return "1"
	}
	return "0"
}

func (decimalEngine) Exec(op string) string {
	w := strings.Split(op, " ")
	switch {
	case w[0] == "table" && len(w) == 3:
		i, err := strconv.Atoi(w[2])
		if err != nil || i < 0 || verifhooks.DecimalTableLen(w[1]) < 0 {
			return "bad-op"
		}
		v, ok := verifhooks.DecimalTable(w[1], i)
		if !ok {
			return "none"
		}
		return decBits(v)
	case w[0] == "u64" && len(w) == 2:
		x, err := strconv.ParseUint(w[1], 10, 64)
		if err != nil {
			return "bad-op"
		}
		return decBits(float64(x))
	case (w[0] == "mul" || w[0] == "div") && len(w) == 3:
		a, ok1 := decFloatArg(w[1])
		b, ok2 := decFloatArg(w[2])
		if !ok1 || !ok2 {
			return "bad-op"
		}
		var r float64
		if w[0] == "mul" {
			r = a * b
		} else {
			r = a / b
		}
		if math.IsNaN(r) {
			return "bad-op"
		}
		return decBits(r)
	case w[0] == "ldexp" && len(w) == 3:
		a, ok := decFloatArg(w[1])
		n, err := strconv.ParseInt(w[2], 10, 64)
		if !ok || err != nil {
			return "bad-op"
		}
		return decBits(math.Ldexp(a, int(n)))
	case w[0] == "pow5" && len(w) == 3:
		a, ok := decFloatArg(w[1])
		n, err := strconv.ParseInt(w[2], 10, 64)
		if !ok || err != nil || math.IsInf(a, 0) {
			return "bad-op"
		}
		return decBits(verifhooks.DecimalPow5(a, int(n)))
	case w[0] == "log10" && len(w) == 2:
		x, ok := new(big.Int).SetString(w[1], 16)
		if !ok || x.Sign() <= 0 {
			return "bad-op"
		}
		return strconv.Itoa(verifhooks.DecimalLog10(x))
	case w[0] == "conc64" && len(w) == 3:
		seed, err1 := strconv.ParseUint(w[1], 10, 64)
		ms, err2 := strconv.Atoi(w[2])
		if err1 != nil || err2 != nil || ms < 1 || ms > 20000 {
			return "bad-op"
		}
		return decConc64(seed, time.Duration(ms)*time.Millisecond)
	case w[0] == "f64" && len(w) == 2 && w[1] != "":
		z, st, ek := verifhooks.DecimalParse(w[1])
		if ek != "" {
			return "err " + ek
		}
		bits, exact := verifhooks.DecimalFloat64(z)
		return fmt.Sprintf("ok %s %s %s %d %d %016x %s %s", decB01(st.Neg), decB01(st.Base2), st.Mant.Text(16),
			st.Exp, st.Digits, bits, decB01(exact), decRef(w[1]))
	}
	return "bad-op"
}

// decConc64: 4×GOMAXPROCS goroutines (so that goroutines are preempted in the middle of a
// conversion) each convert their OWN long numeral (mantissa far above 2^53: the path through the
// shared buffer pool and strconv) over and over for the given time; every result must be the one
// the same goroutine got when it ran alone. A conversion must not depend on who else is
// converting. Answer: "ok" or "differs <numeral prefix> alone=<bits> concurrent=<bits>".
func decConc64(seed uint64, d time.Duration) string {
	r := NewRand(seed)
	n := 64
	nums := make([]string, n)
	alone := make([]string, n)
	for i := range nums {
		var b strings.Builder
		digits := 900 + r.Intn(2400)
		b.WriteByte(byte('1' + r.Intn(9)))
		for j := 1; j < digits; j++ {
			b.WriteByte(byte('0' + r.Intn(10)))
			if j == digits/3 && i%2 == 0 {
				b.WriteByte('.')
			}
		}
		fmt.Fprintf(&b, "e%d", r.Intn(600)-300-digits/2)
		nums[i] = b.String()
		z, _, ek := verifhooks.DecimalParse(nums[i])
		if ek != "" {
			return "bad-op numeral rejected: " + ek
		}
		bits, exact := verifhooks.DecimalFloat64(z)
		alone[i] = fmt.Sprintf("%016x/%s", bits, decB01(exact))
	}
	var bad atomic.Pointer[string]
	var wg sync.WaitGroup
	deadline := time.Now().Add(d)
	for i := 0; i < n; i++ {
		wg.Add(1)
		go func(i int) {
			defer wg.Done()
			defer func() {
				if p := recover(); p != nil {
					m := fmt.Sprintf("differs %.24s alone=%s concurrent=panic:%v", nums[i], alone[i], p)
					bad.CompareAndSwap(nil, &m)
				}
			}()
			for it := 0; bad.Load() == nil && (it%16 != 0 || time.Now().Before(deadline)); it++ {
				z, _, _ := verifhooks.DecimalParse(nums[i])
				bits, exact := verifhooks.DecimalFloat64(z)
				if got := fmt.Sprintf("%016x/%s", bits, decB01(exact)); got != alone[i] {
					m := fmt.Sprintf("differs %.24s alone=%s concurrent=%s", nums[i], alone[i], got)
					bad.CompareAndSwap(nil, &m)
					return
				}
			}
		}(i)
	}
	wg.Wait()
	if m := bad.Load(); m != nil {
		return Canon(*m)
	}
	return "ok"
}

func (decimalEngine) Trivial(op, ans string) bool {
	return ans == "bad-op" || ans == "none" || ans == "err syntax"
}

func (decimalEngine) Class(op, ans string) string {
	w := strings.Split(op, " ")
	if w[0] != "f64" {
		return w[0]
	}
	a := strings.Split(ans, " ")
	if a[0] != "ok" {
		return "f64:" + strings.Join(a, "-")
	}
	// ok neg b2 mant exp digits bits exact ref
	mant, _ := new(big.Int).SetString(a[3], 16)
	e, _ := strconv.Atoi(a[4])
	d, _ := strconv.Atoi(a[5])
	e -= d
	lim := new(big.Int).Lsh(big.NewInt(1), 53)
	k := "f64:"
	if a[2] == "1" {
		k += "base2"
	} else {
		k += "base10"
	}
	switch {
	case mant.Sign() == 0:
		k += ":zero"
	case mant.Cmp(lim) > 0:
		k += ":slow"
	case e == 0:
		k += ":int"
	case a[2] == "0" && e >= -22 && e <= 22:
		k += ":clinger"
	default:
		k += ":fast"
	}
	if a[8] != "-" && a[8] != a[6] {
		k += ":ne-strconv"
	}
	return k
}

// ---------------------------------------------------------------- generator

type decGen struct {
	r    *Rand
	ops  []string
	seen map[string]bool
}

func (g *decGen) add(op string) {
	if !g.seen[op] {
		g.seen[op] = true
		g.ops = append(g.ops, op)
	}
}

func (g *decGen) num(s string) {
	if s != "" && !strings.ContainsAny(s, " \t\n\r") {
		g.add("f64 " + s)
	}
}

func (g *decGen) digits(n int) string {
	b := make([]byte, n)
	for i := range b {
		b[i] = byte('0' + g.r.Intn(10))
	}
	if n > 0 && b[0] == '0' && g.r.Chance(9, 10) {
		b[0] = byte('1' + g.r.Intn(9))
	}
	return string(b)
}

func (g *decGen) hexDigits(n int) string {
	const hd = "0123456789abcdefABCDEF"
	b := make([]byte, n)
	for i := range b {
		b[i] = hd[g.r.Intn(len(hd))]
	}
	return string(b)
}

// decorate inserts a point and sometimes digit separators into a digit string.
func (g *decGen) decorate(d string, allowSep bool) string {
	r := g.r
	if r.Chance(1, 2) {
		p := r.Intn(len(d) + 1)
		d = d[:p] + "." + d[p:]
		if d == "." {
			d = "0."
		}
	}
	if allowSep && r.Chance(1, 12) && len(d) >= 3 {
		p := 1 + r.Intn(len(d)-2)
		if d[p-1] != '.' && d[p] != '.' {
			d = d[:p] + "_" + d[p:]
		}
	}
	return d
}

var decInterestingExps = []int{0, 1, -1, 7, 15, 16, 22, 23, 24, -22, -23, -24, 31, 32, 33, 55, -55, 64, 87, -87, 119, -119,
	288, 291, 292, 293, 300, 307, 308, 309, 310, 311, -288, -290, -300, -305, -306, -307, -308, -309, -310, -315, -320,
	-322, -323, -324, -325, -326, -330, -340, -343, 400, -400}

func (g *decGen) exp() int {
	r := g.r
	switch r.Intn(6) {
	case 0:
		return r.Intn(45) - 22
	case 1:
		return Pick(r, decInterestingExps)
	case 2:
		return 23 + 32*r.Intn(9)*(1-2*r.Intn(2))
	case 3:
		return r.Intn(80) - 40
	default:
		return r.Intn(700) - 350
	}
}

func (g *decGen) sign() string {
	switch g.r.Intn(8) {
	case 0:
		return "-"
	case 1:
		return "+"
	}
	return ""
}

func (g *decGen) expPart(e int, marker string) string {
	s := strconv.Itoa(e)
	if e >= 0 && g.r.Chance(1, 4) {
		s = "+" + s
	}
	if g.r.Chance(1, 20) {
		s = strings.Replace(s, "-", "-0", 1)
	}
	return marker + s
}

// decExactDecimal prints a non-negative dyadic rational exactly.
func decExactDecimal(x *big.Float) string {
	return x.Text('f', 1100)
}

func decTrimZeros(s string) string {
	if strings.Contains(s, ".") {
		s = strings.TrimRight(s, "0")
		s = strings.TrimSuffix(s, ".")
	}
	return s
}

func (g *decGen) randFloat() float64 {
	r := g.r
	switch r.Intn(6) {
	case 0: // subnormal
		return math.Float64frombits(r.U64() & (1<<52 - 1) >> uint(r.Intn(52)))
	case 1: // near the top
		return math.Float64frombits(0x7fe0000000000000 | r.U64()&(1<<52-1))
	case 2: // small integers / short fractions
		return float64(r.Intn(1<<20)) / float64(int(1)<<uint(r.Intn(12)))
	case 3: // around 1
		return math.Float64frombits(uint64(1023-30+r.Intn(60))<<52 | r.U64()&(1<<52-1))
	default:
		for {
			f := math.Float64frombits(r.U64() &^ (1 << 63))
			if !math.IsNaN(f) && !math.IsInf(f, 0) {
				return f
			}
		}
	}
}

func (decimalEngine) Gen(r *Rand, tier string) [][]string {
	g := &decGen{r: r, seen: map[string]bool{}}
	thorough := tier == "thorough"
	scale := func(q, t int) int {
		if thorough {
			return t
		}
		return q
	}

	// ---- tables, read from the package variables at run time
	for _, t := range []string{"pow5s", "pow5s32", "pow5s32neg"} {
		n := verifhooks.DecimalTableLen(t)
		for i := 0; i <= n; i++ {
			g.add(fmt.Sprintf("table %s %d", t, i))
		}
	}

	// ---- conversions of long numerals by many goroutines at once (shared buffer pool)
	for i := 0; i < scale(2, 12); i++ {
		g.add(fmt.Sprintf("conc64 %d 1500", r.Intn(1<<30)))
	}

	// ---- hand-picked boundary numerals first (every known failure class shows up early)
	for _, s := range []string{"0", "-0", "+0", "0.0", ".0", "0.", "0e0", "0e5", "0e-5", "0.000e400", "0x0", "0x0p0", "0x0.0p5", "-0x0p-5",
		"00", "007", "01e1", "1__2", "_1", "1_", "1_.5", "1._5", "1.5_", "1e_5", "1e5_", "1e1_0", "1_0e1_0", "1e", "1e+", "1e-", "1p", "0x", "0x.", "0xp1",
		"0x1p", "0x1p+", "0x1pa", "0x1p1a", "0X1P1", "0x1e5", "0x1e+5", "0x.8", "0x8.", "0x1.8", "0x1.8p0", "1e23", "0.1", "4.9e-324", "5e-324",
		"2.5e-324", "2.4703282292062327e-324", "2.4703282292062328e-324", "1.7976931348623157e308", "1.7976931348623158e308", "1.7976931348623159e308",
		"1.797693134862315807e308", "1.797693134862315808e308", "2.2250738585072014e-308", "2.2250738585072011e-308", "2.225073858507201136e-308",
		"0x1p-1074", "0x1p-1075", "0x1.8p-1075", "0x1.00000000000001p-1075", "0x3p-1075", "0x1p-1076", "0x0.8p-1073", "0x1p1023", "0x1p1024",
		"0x1.fffffffffffffp1023", "0x1.fffffffffffff8p1023", "0x1.fffffffffffff7fp1023", "0x1.fffffffffffff8001p1023",
		"0x1.00000000000008p0", "0x1.000000000000080p0", "0x1.00000000000008001p0", "0x1.00000000000018p0", "0x1.000000000000180001p0",
		"0x1.00000000000007fffffp0", "0x0.4p0", "0x0.1p0", "0x0.01p0", "0x0.2p1", "0x.4", "0x00.4p0", "0x10.4p0", "0x0.08", "0x0.07",
		"0.01e5", "0.05e-3", "0.05e0", ".01e1", "0.1e5", "0.5e-3", "3p2", "1.5p3", "10p1", "0.5p1", "1p0", "1p-1", "0p5", "2p0", "1p1", "8p-3",
		"1e2147483646", "1e2147483647", "1e2147483648", "1e-2147483647", "1e-2147483648", "1e-2147483649", "1e-2147483650",
		"1e9223372036854775807", "1e9223372036854775808", "1e-9223372036854775808", "1e99999999999999999999", "1e-99999999999999999999",
		"0e99999999999999999999", "0x1p2147483647", "0x1p-2147483649", "12_3.4_5e1_0", "1,5", "1e5e5", "1.2.3", "--1", "+-1", "1-", "1e+-5", "inf", "nan", "Inf", "0b1", "0o7"} {
		g.num(s)
	}

	// ---- very long mantissas: around the 767/768 significant digits an exact tie between
	// doubles can have, and around the 800-digit buffer of strconv's slow path
	{
		nines := func(n int) string { return strings.Repeat("9", n) }
		zeros := func(n int) string { return strings.Repeat("0", n) }
		// exact decimal expansions of ties, to be extended with zeros and a final nonzero digit
		tieTop := new(big.Float).SetPrec(2200).SetFloat64(math.Float64frombits(0x000fffffffffffff))
		tieTop.Add(tieTop, new(big.Float).SetPrec(2200).SetFloat64(math.Float64frombits(0x0010000000000000)))
		tieTop.Quo(tieTop, big.NewFloat(2))
		tieMin := new(big.Float).SetPrec(2200).SetMantExp(big.NewFloat(1), -1075)
		ties := []string{
			"9007199254740993", // 2^53+1
			"1.00000000000000011102230246251565404236316680908203125", // 1+2^-53
			"0.1000000000000000124900090270330610871315002441406250",  // between 0.1 and its successor
			decTrimZeros(decExactDecimal(tieTop)),                     // largest subnormal | least normal
			decTrimZeros(decExactDecimal(tieMin)),                     // 0 | least subnormal
		}
		sig := func(t string) int { // significant digits of a plain decimal
			d := strings.TrimLeft(strings.ReplaceAll(t, ".", ""), "0")
			return len(d)
		}
		for _, L := range []int{767, 768, 769, 799, 800, 801, 802, 850, 1000, 1200} {
			// all nines: integer, fraction, scaled back to ~1, to the overflow edge, to the subnormals
			g.num(nines(L))
			g.num("0." + nines(L))
			g.num("9." + nines(L-1))
			g.num(nines(L/2) + "." + nines(L-L/2))
			g.num(fmt.Sprintf("%se-%d", nines(L), L))
			g.num(fmt.Sprintf("-%se%d", nines(L), 308-L))
			g.num(fmt.Sprintf("%se%d", nines(L), 309-L))
			g.num(fmt.Sprintf("%se-%d", nines(L), L+323))
			g.num(fmt.Sprintf("0.%se-323", nines(L)))
			// one, a run of zeros, one (with and without a point, leading / trailing zeros)
			g.num("1." + zeros(L-2) + "1")
			g.num("1" + zeros(L-2) + "1")
			g.num(fmt.Sprintf("1%s1e-%d", zeros(L-2), L-1))
			g.num("000" + "1" + zeros(L-2) + "1" + "000")
			g.num("0.000" + "1" + zeros(L-2) + "1" + "000")
			g.num(fmt.Sprintf("00.%s1%s1e+%d", zeros(5), zeros(L-2), L))
			g.num("1" + zeros(L-1))
			g.num("1" + zeros(L-1) + "." + zeros(3))
			g.num(fmt.Sprintf("1_%se-%d", zeros(L-1), L-1))
			// ties whose deciding digit lies beyond the L-th significant digit
			for _, t := range ties {
				if sig(t) >= L {
					continue
				}
				ext := t
				if !strings.Contains(ext, ".") {
					ext += "."
				}
				ext += zeros(L-sig(t)-1) + "1"
				g.num(ext)      // just above the tie
				g.num(t + "e0") // the tie itself
				intForm := strings.ReplaceAll(ext, ".", "")
				fracLen := len(ext) - strings.IndexByte(ext, '.') - 1
				g.num(fmt.Sprintf("%se-%d", intForm, fracLen)) // same value, integer mantissa
				g.num(fmt.Sprintf("-%se-%d", strings.TrimLeft(intForm, "0"), fracLen))
			}
			// hex: no digit limit in Parse/Float64, checked all the same
			g.num("0x1." + zeros(L-2) + "1p0")
			g.num("0x1." + zeros(12) + "8" + zeros(L-15) + "1p0")
			g.num(fmt.Sprintf("0x%sp-%d", strings.Repeat("f", L), 4*L))
		}
	}

	// ---- hardware arithmetic = rne of the exact result (the stated IEEE assumption)
	u64s := []uint64{0, 1, 2, 3, 9, 10, 1<<53 - 1, 1 << 53, 1<<53 + 1, 1<<53 + 2, 1<<53 + 3, 1<<54 - 1, 1<<54 + 1, 1<<54 + 2,
		1<<54 + 3, 1<<63 - 1, 1 << 63, 1<<63 + 1, 1<<63 + 1024, 1<<63 + 1025, 1<<64 - 1, 1<<64 - 1024, 1<<64 - 1025, 1<<64 - 2048}
	for i := 0; i < 64; i++ {
		u64s = append(u64s, 1<<uint(i), 1<<uint(i)-1, 1<<uint(i)+1)
	}
	for i := 0; i < scale(600, 20000); i++ {
		x := r.U64() >> uint(r.Intn(64))
		if r.Chance(1, 3) { // halfway and near-halfway patterns for 54..64-bit values
			sh := uint(1 + r.Intn(11))
			x = (r.U64()|1<<63)>>(11-sh)&^(1<<sh-1) | 1<<(sh-1)
			switch r.Intn(3) {
			case 0:
				x++
			case 1:
				x--
			}
		}
		u64s = append(u64s, x)
	}
	for _, x := range u64s {
		g.add(fmt.Sprintf("u64 %d", x))
	}
	tbl := func() float64 {
		t := Pick(r, []string{"pow5s", "pow5s32", "pow5s32neg"})
		v, _ := verifhooks.DecimalTable(t, r.Intn(verifhooks.DecimalTableLen(t)))
		return v
	}
	for i := 0; i < scale(1500, 60000); i++ {
		a, b := g.randFloat(), g.randFloat()
		switch r.Intn(4) {
		case 0:
			a = float64(r.U64() >> uint(11+r.Intn(53)))
			b = tbl()
		case 1:
			b = tbl()
		}
		if !(math.IsNaN(a*b) || (a == 0 && math.IsInf(b, 0)) || (b == 0 && math.IsInf(a, 0))) {
			g.add("mul " + decBits(a) + " " + decBits(b))
		}
		if !math.IsNaN(a/b) && !(a == 0 && b == 0) {
			g.add("div " + decBits(a) + " " + decBits(b))
		}
		n := r.Intn(2200) - 1100
		switch r.Intn(8) {
		case 0:
			n = r.Intn(60) - 30
		case 1:
			_, e := math.Frexp(a)
			n = -1074 - e + r.Intn(8) - 2 // lands around the subnormal boundary
		case 2:
			_, e := math.Frexp(a)
			n = 1024 - e + r.Intn(4) - 2
		case 3:
			n = (1 << uint(r.Intn(40))) * (1 - 2*r.Intn(2))
		}
		g.add(fmt.Sprintf("ldexp %s %d", decBits(a), n))
	}
	for _, a := range []float64{0, math.Inf(1), 1, math.SmallestNonzeroFloat64, math.MaxFloat64} {
		for _, n := range []int{0, 1, -1, 52, -52, 1074, -1074, -1075, 2098, -2098, 2099, 1 << 31, -(1 << 31), 1 << 40, -(1 << 40)} {
			g.add(fmt.Sprintf("ldexp %s %d", decBits(a), n))
		}
	}

	// ---- pow5: every exponent the switch distinguishes, for a few mantissas
	p5m := []float64{1, 3, 7, 10, 1 << 52, 1<<53 - 1, 1 << 53, 123456789, 0}
	for i := 0; i < scale(3, 40); i++ {
		p5m = append(p5m, float64(r.U64()>>uint(11+r.Intn(53))))
	}
	for _, a := range p5m {
		for n := -330; n <= 315; n++ {
			if thorough || a <= 7 || n%32 == 23 || n%32 == -23 || r.Chance(1, 6) || n < -318 || n > 304 || (n >= -23 && n <= 23) {
				g.add(fmt.Sprintf("pow5 %s %d", decBits(a), n))
			}
		}
		for _, n := range []int{1 << 31, -(1 << 31), 1000, -1000} {
			g.add(fmt.Sprintf("pow5 %s %d", decBits(a), n))
		}
	}

	// ---- bigx.Log10 (Decimal.digits)
	ten := big.NewInt(10)
	p := big.NewInt(1)
	one := big.NewInt(1)
	for k := 0; k <= scale(340, 1300); k++ {
		g.add("log10 " + p.Text(16))
		g.add("log10 " + new(big.Int).Add(p, one).Text(16))
		if k > 0 {
			g.add("log10 " + new(big.Int).Sub(p, one).Text(16))
		}
		p = new(big.Int).Mul(p, ten)
	}
	for k := 0; k < scale(300, 3000); k++ {
		x := new(big.Int).Lsh(one, uint(k))
		g.add("log10 " + x.Text(16))
		g.add("log10 " + new(big.Int).Add(x, big.NewInt(int64(r.Intn(1000)))).Text(16))
	}

	// ---- numerals: exhaustive small domains
	for _, m := range []string{"1", "2", "3", "5", "7", "9", "49", "25", "9007199254740991", "9007199254740992", "9007199254740993",
		"18014398509481985", "18446744073709551615", "18446744073709551616", "17976931348623157", "22250738585072014", "4940656458412465"} {
		step := 1
		if !thorough && len(m) > 2 {
			step = 3
		}
		for e := -360; e <= 330; e += step {
			g.num(fmt.Sprintf("%se%d", m, e))
		}
	}
	for d := 0; d <= scale(999, 9999); d++ { // every short mantissa in the Clinger range and at residue 23
		for _, e := range []int{-23, -22, -5, -1, 0, 1, 5, 22, 23} {
			if thorough || d < 100 || (d+e)%7 == 0 {
				g.num(fmt.Sprintf("%de%d", d, e))
			}
		}
	}
	// every string of length ≤ 4 (5 in thorough) over a syntax alphabet, with and without a hex prefix
	alpha := []byte("015._epx-")
	maxLen := scale(4, 5)
	var rec func(p []byte)
	rec = func(p []byte) {
		if len(p) > 0 {
			g.num(string(p))
			if len(p) <= 3 {
				g.num("0x" + string(p))
			}
		}
		if len(p) == maxLen {
			return
		}
		for _, c := range alpha {
			rec(append(append([]byte{}, p...), c))
		}
	}
	rec(nil)
	// ---- numerals: random, structured
	for i := 0; i < scale(9000, 400000); i++ {
		var mlen int
		switch r.Intn(10) {
		case 0, 1, 2:
			mlen = 1 + r.Intn(6)
		case 3, 4, 5:
			mlen = 1 + r.Intn(17)
		case 6, 7:
			mlen = 15 + r.Intn(6) // around 2^53 and 2^64
		case 8:
			mlen = 1 + r.Intn(40)
		default:
			mlen = 1 + r.Intn(scale(120, 800))
		}
		d := g.digits(mlen)
		if r.Chance(1, 6) { // trailing / leading zeros
			d = d + strings.Repeat("0", r.Intn(5))
			if r.Chance(1, 2) {
				d = strings.Repeat("0", 1+r.Intn(3)) + d
			}
		}
		s := g.sign() + g.decorate(d, true)
		switch r.Intn(12) {
		case 0: // no exponent
		case 1:
			if r.Chance(1, 6) {
				s += g.expPart(r.Intn(60)-30, Pick(r, []string{"p", "P"}))
			} else {
				s += g.expPart(g.exp(), "E")
			}
		default:
			s += g.expPart(g.exp(), "e")
		}
		g.num(s)
	}
	// integers around 2^53 and 2^64 (the exact / uint64 / big-mantissa switches)
	for i := 0; i < scale(400, 20000); i++ {
		base := Pick(r, []uint64{1 << 53, 1 << 54, 1 << 63, 1<<64 - 1, 1 << 52})
		x := new(big.Int).SetUint64(base)
		x.Add(x, big.NewInt(int64(r.Intn(9)-4)))
		if r.Chance(1, 3) {
			x.Mul(x, big.NewInt(int64(1+r.Intn(20))))
		}
		s := x.String()
		if r.Chance(1, 2) {
			s += g.expPart(g.exp(), "e")
		}
		g.num(s)
	}
	// shortest / 17-digit renderings of random floats, and their neighbours in the last digit
	for i := 0; i < scale(1500, 60000); i++ {
		f := g.randFloat()
		g.num(strconv.FormatFloat(f, 'e', -1, 64))
		g.num(strconv.FormatFloat(f, 'e', 16, 64))
		if r.Chance(1, 2) {
			g.num(strconv.FormatFloat(f, 'g', 5+r.Intn(20), 64))
		} else {
			g.num(strconv.FormatFloat(f, 'f', -1, 64))
		}
	}
	// exact halfway points between adjacent floats, and one unit in the last place either side
	for i := 0; i < scale(150, 6000); i++ {
		f := g.randFloat()
		if f >= math.MaxFloat64 {
			continue
		}
		up := math.Nextafter(f, math.Inf(1))
		mid := new(big.Float).SetPrec(2200).SetFloat64(f)
		mid.Add(mid, new(big.Float).SetPrec(2200).SetFloat64(up))
		mid.Quo(mid, big.NewFloat(2))
		s := decTrimZeros(decExactDecimal(mid))
		g.num(s)
		if !strings.Contains(s, ".") {
			s += ".0"
		}
		g.num(s + "1")
		g.num(s + "000000000000000000001")
		// one below: decrement the last digit (s ends in a nonzero digit after decTrimZeros unless integer)
		b := []byte(decTrimZeros(s))
		for j := len(b) - 1; j >= 0; j-- {
			if b[j] == '.' {
				continue
			}
			if b[j] > '0' {
				b[j]--
				break
			}
			b[j] = '9'
		}
		g.num(string(b) + "9999")
		// the same value in scientific form with a shifted point
		if r.Chance(1, 3) {
			k := r.Intn(30) - 15
			g.num(s + g.expPart(k, "e"))
		}
	}
	// hex floats
	hexExps := []int{0, 1, -1, 4, -4, 52, 53, -52, -53, 970, 971, 1019, 1020, 1023, 1024, 1025, -1021, -1022, -1023, -1026, -1070, -1073, -1074, -1075,
		-1076, -1078, -1080, -1127, -1130, 2000, -2000}
	for i := 0; i < scale(2500, 100000); i++ {
		var hlen int
		switch r.Intn(6) {
		case 0:
			hlen = 1 + r.Intn(3)
		case 1, 2:
			hlen = 1 + r.Intn(14)
		case 3, 4:
			hlen = 13 + r.Intn(6)
		default:
			hlen = 1 + r.Intn(40)
		}
		d := g.hexDigits(hlen)
		if r.Chance(1, 3) && hlen >= 15 { // halfway patterns: 13 digits after the leading one, then 8/7f/80..01
			tail := Pick(r, []string{"8", "80", "8000000", "7ffffff", "8000001", "800000000000000000001", "7", "9", "4", "c", "c0000001"})
			d = "1" + g.hexDigits(13) + tail
		}
		if r.Chance(1, 5) {
			d = strings.Repeat("0", 1+r.Intn(3)) + d
		}
		s := g.sign() + Pick(r, []string{"0x", "0x", "0x", "0X"}) + g.decorate(d, true)
		switch r.Intn(8) {
		case 0:
		case 1, 2:
			s += g.expPart(Pick(r, hexExps)-4*r.Intn(hlen+1), Pick(r, []string{"p", "P"}))
		case 3:
			s += g.expPart(r.Intn(2300)-1150, "p")
		default:
			s += g.expPart(r.Intn(40)-20, "p")
		}
		g.num(s)
	}
	// noise around valid numerals (syntax paths)
	noise := []byte("0123456789..__eEpPxX+-aAfF,z")
	for i := 0; i < scale(800, 30000); i++ {
		l := 1 + r.Intn(10)
		b := make([]byte, l)
		for j := range b {
			b[j] = noise[r.Intn(len(noise))]
		}
		g.num(string(b))
	}

	cases := make([][]string, 0, len(g.ops))
	for _, o := range g.ops {
		cases = append(cases, []string{o})
	}
	return cases
}
