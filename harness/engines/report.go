package engines

import (
	"fmt"
	"strconv"
	"strings"

	"google.golang.org/protobuf/proto"

	"github.com/bufbuild/protocompile/experimental/report"
	"github.com/bufbuild/protocompile/experimental/source"
	"github.com/bufbuild/protocompile/verifhooks"
)

// Engines for experimental/report/report.go:
//
//	reportproto  (C37)  Report.ToProto / Report.AppendFromProto
//	canonicalize (C36)  Report.Canonicalize
//
// A report travels as a token sequence (byte strings hex-encoded, "-" = empty):
//
//	D <level> <sortOrder> <tag> <msg> <inFile>       starts a diagnostic
//	n <note> | h <help> | g <debug>                   appended to the current diagnostic
//	S <fid> <path> <text> <start> <end> <msg> <primary01> <pageBreak01>
//	E <start> <end> <replace>                         appended to the current snippet
//
// and a compilerpb.Report as
//
//	pf <path> <text>
//	pd <level> <tag> <msg> <inFile>, n/h/g as above
//	pa <file> <start> <end> <msg> <primary01> <pageBreak01>
//	pe <start> <end> <replace>

type rpEdit struct {
	s, e int64
	repl []byte
}

type rpSnip struct {
	fid        int
	path, text []byte
	s, e       int64
	msg        []byte
	prim, brk  bool
	edits      []rpEdit
}

type rpDiag struct {
	level, order       int64
	tag, msg, inFile   []byte
	notes, help, debug [][]byte
	snips              []rpSnip
}

func rpB01(b bool) string {
	if b {
		return "1"
	}
	return "0"
}

func rpFmtReport(ds []rpDiag) []string {
	var t []string
	for _, d := range ds {
		t = append(t, "D", strconv.FormatInt(d.level, 10), strconv.FormatInt(d.order, 10), Hex(d.tag), Hex(d.msg), Hex(d.inFile))
		for _, x := range d.notes {
			t = append(t, "n", Hex(x))
		}
		for _, x := range d.help {
			t = append(t, "h", Hex(x))
		}
		for _, x := range d.debug {
			t = append(t, "g", Hex(x))
		}
		for _, s := range d.snips {
			t = append(t, "S", strconv.Itoa(s.fid), Hex(s.path), Hex(s.text), strconv.FormatInt(s.s, 10), strconv.FormatInt(s.e, 10),
				Hex(s.msg), rpB01(s.prim), rpB01(s.brk))
			for _, e := range s.edits {
				t = append(t, "E", strconv.FormatInt(e.s, 10), strconv.FormatInt(e.e, 10), Hex(e.repl))
			}
		}
	}
	return t
}

type rpTokReader struct {
	t  []string
	ok bool
}

func (r *rpTokReader) next() string {
	if len(r.t) == 0 {
		r.ok = false
		return ""
	}
	x := r.t[0]
	r.t = r.t[1:]
	return x
}

func (r *rpTokReader) hex() []byte {
	x := r.next()
	if !r.ok {
		return nil
	}
	if x == "-" {
		return nil
	}
	if len(x)%2 != 0 {
		r.ok = false
		return nil
	}
	for _, c := range x {
		if !(c >= '0' && c <= '9' || c >= 'a' && c <= 'f' || c >= 'A' && c <= 'F') {
			r.ok = false
			return nil
		}
	}
	return UnHex(x)
}

func (r *rpTokReader) int() int64 {
	x := r.next()
	if !r.ok {
		return 0
	}
	if strings.HasPrefix(x, "+") {
		r.ok = false
		return 0
	}
	v, err := strconv.ParseInt(x, 10, 64)
	if err != nil {
		r.ok = false
	}
	return v
}

func (r *rpTokReader) nat() uint32 {
	x := r.next()
	if !r.ok {
		return 0
	}
	if strings.HasPrefix(x, "+") {
		r.ok = false
		return 0
	}
	v, err := strconv.ParseUint(x, 10, 32)
	if err != nil {
		r.ok = false
	}
	return uint32(v)
}

func (r *rpTokReader) bit() bool {
	x := r.next()
	if x != "0" && x != "1" {
		r.ok = false
	}
	return x == "1"
}

func rpParseReport(toks []string) ([]rpDiag, bool) {
	r := &rpTokReader{t: toks, ok: true}
	var ds []rpDiag
	for len(r.t) > 0 && r.ok {
		switch k := r.next(); k {
		case "D":
			d := rpDiag{level: r.int(), order: r.int(), tag: r.hex(), msg: r.hex(), inFile: r.hex()}
			if d.level < -128 || d.level > 127 {
				return nil, false
			}
			ds = append(ds, d)
		case "n", "h", "g":
			if len(ds) == 0 {
				return nil, false
			}
			d := &ds[len(ds)-1]
			x := r.hex()
			switch k {
			case "n":
				d.notes = append(d.notes, x)
			case "h":
				d.help = append(d.help, x)
			default:
				d.debug = append(d.debug, x)
			}
		case "S":
			if len(ds) == 0 {
				return nil, false
			}
			d := &ds[len(ds)-1]
			fid := r.nat()
			d.snips = append(d.snips, rpSnip{fid: int(fid), path: r.hex(), text: r.hex(), s: r.int(), e: r.int(), msg: r.hex(), prim: r.bit(), brk: r.bit()})
		case "E":
			if len(ds) == 0 || len(ds[len(ds)-1].snips) == 0 {
				return nil, false
			}
			d := &ds[len(ds)-1]
			s := &d.snips[len(d.snips)-1]
			s.edits = append(s.edits, rpEdit{s: r.int(), e: r.int(), repl: r.hex()})
		default:
			return nil, false
		}
	}
	return ds, r.ok
}

func rpFmtProto(p verifhooks.PReport) []string {
	var t []string
	for _, f := range p.Files {
		t = append(t, "pf", Hex([]byte(f.Path)), Hex(f.Text))
	}
	for _, d := range p.Diagnostics {
		t = append(t, "pd", strconv.FormatInt(int64(d.Level), 10), Hex([]byte(d.Tag)), Hex([]byte(d.Message)), Hex([]byte(d.InFile)))
		for _, x := range d.Notes {
			t = append(t, "n", Hex([]byte(x)))
		}
		for _, x := range d.Help {
			t = append(t, "h", Hex([]byte(x)))
		}
		for _, x := range d.Debug {
			t = append(t, "g", Hex([]byte(x)))
		}
		for _, a := range d.Annotations {
			t = append(t, "pa", strconv.FormatUint(uint64(a.File), 10), strconv.FormatUint(uint64(a.Start), 10),
				strconv.FormatUint(uint64(a.End), 10), Hex([]byte(a.Message)), rpB01(a.Primary), rpB01(a.PageBreak))
			for _, e := range a.Edits {
				t = append(t, "pe", strconv.FormatUint(uint64(e.Start), 10), strconv.FormatUint(uint64(e.End), 10), Hex([]byte(e.Replace)))
			}
		}
	}
	return t
}

func rpParseProto(toks []string) (verifhooks.PReport, bool) {
	r := &rpTokReader{t: toks, ok: true}
	var p verifhooks.PReport
	for len(r.t) > 0 && r.ok {
		switch k := r.next(); k {
		case "pf":
			if len(p.Diagnostics) > 0 {
				return p, false
			}
			p.Files = append(p.Files, verifhooks.PFile{Path: string(r.hex()), Text: r.hex()})
		case "pd":
			lv := r.int()
			if lv < -(1<<31) || lv >= 1<<31 {
				return p, false
			}
			p.Diagnostics = append(p.Diagnostics, verifhooks.PDiagnostic{Level: int32(lv), Tag: string(r.hex()), Message: string(r.hex()), InFile: string(r.hex())})
		case "n", "h", "g":
			if len(p.Diagnostics) == 0 {
				return p, false
			}
			d := &p.Diagnostics[len(p.Diagnostics)-1]
			x := string(r.hex())
			switch k {
			case "n":
				d.Notes = append(d.Notes, x)
			case "h":
				d.Help = append(d.Help, x)
			default:
				d.Debug = append(d.Debug, x)
			}
		case "pa":
			if len(p.Diagnostics) == 0 {
				return p, false
			}
			d := &p.Diagnostics[len(p.Diagnostics)-1]
			d.Annotations = append(d.Annotations, verifhooks.PAnnotation{File: r.nat(), Start: r.nat(), End: r.nat(), Message: string(r.hex()), Primary: r.bit(), PageBreak: r.bit()})
		case "pe":
			if len(p.Diagnostics) == 0 || len(p.Diagnostics[len(p.Diagnostics)-1].Annotations) == 0 {
				return p, false
			}
			d := &p.Diagnostics[len(p.Diagnostics)-1]
			a := &d.Annotations[len(d.Annotations)-1]
			a.Edits = append(a.Edits, verifhooks.PEdit{Start: r.nat(), End: r.nat(), Replace: string(r.hex())})
		default:
			return p, false
		}
	}
	return p, r.ok
}

// rpFileTable interns the *source.File objects of one op: one object per (fid, path, text).
type rpFileTable struct {
	byKey map[string]*source.File
	fid   map[*source.File]int
}

func rpNewFileTable() *rpFileTable {
	return &rpFileTable{byKey: map[string]*source.File{}, fid: map[*source.File]int{}}
}

func (ft *rpFileTable) get(s rpSnip) *source.File {
	k := fmt.Sprintf("%d/%x/%x", s.fid, s.path, s.text)
	if f, ok := ft.byKey[k]; ok {
		return f
	}
	f := source.NewFile(string(s.path), string(s.text))
	ft.byKey[k] = f
	ft.fid[f] = s.fid
	return f
}

func rpToStrings(bs [][]byte) []string {
	var out []string
	for _, b := range bs {
		out = append(out, string(b))
	}
	return out
}

func rpToBytes(ss []string) [][]byte {
	var out [][]byte
	for _, s := range ss {
		out = append(out, []byte(s))
	}
	return out
}

func rpBuildDiag(d rpDiag, ft *rpFileTable) report.Diagnostic {
	v := report.VerifDiagnostic{
		Tag: string(d.tag), Message: string(d.msg), Level: report.Level(int8(d.level)), SortOrder: int(d.order),
		InFile: string(d.inFile), Notes: rpToStrings(d.notes), Help: rpToStrings(d.help), Debug: rpToStrings(d.debug),
	}
	for _, s := range d.snips {
		vs := report.VerifSnippet{File: ft.get(s), Start: int(s.s), End: int(s.e), Message: string(s.msg), Primary: s.prim, PageBreak: s.brk}
		for _, e := range s.edits {
			vs.Edits = append(vs.Edits, report.Edit{Start: int(e.s), End: int(e.e), Replace: string(e.repl)})
		}
		v.Snippets = append(v.Snippets, vs)
	}
	return report.VerifNewDiagnostic(v)
}

func rpBuildReport(ds []rpDiag, ft *rpFileTable) *report.Report {
	r := new(report.Report)
	for _, d := range ds {
		r.Diagnostics = append(r.Diagnostics, rpBuildDiag(d, ft))
	}
	return r
}

// rpViewReport reads the diagnostics back. File identities are reported through ft (0 when the
// file object is not one of the op's, as after AppendFromProto).
func rpViewReport(r *report.Report, ft *rpFileTable) []rpDiag {
	var out []rpDiag
	for i := range r.Diagnostics {
		v := report.VerifViewDiagnostic(&r.Diagnostics[i])
		d := rpDiag{level: int64(v.Level), order: int64(v.SortOrder), tag: []byte(v.Tag), msg: []byte(v.Message), inFile: []byte(v.InFile),
			notes: rpToBytes(v.Notes), help: rpToBytes(v.Help), debug: rpToBytes(v.Debug)}
		for _, s := range v.Snippets {
			rs := rpSnip{path: []byte(s.File.Path()), text: []byte(s.File.Text()), s: int64(s.Start), e: int64(s.End), msg: []byte(s.Message), prim: s.Primary, brk: s.PageBreak}
			if ft != nil {
				rs.fid = ft.fid[s.File]
			}
			for _, e := range s.Edits {
				rs.edits = append(rs.edits, rpEdit{s: int64(e.Start), e: int64(e.End), repl: []byte(e.Replace)})
			}
			d.snips = append(d.snips, rs)
		}
		out = append(out, d)
	}
	return out
}

func rpJoin(t []string) string { return strings.Join(t, " ") }

func rpClassifyErr(err error) string {
	if err == nil {
		return "ok"
	}
	s := err.Error()
	var a, b, c, d int
	if n, _ := fmt.Sscanf(s, "protocompile/report: missing message for diagnostic[%d]", &a); n == 1 {
		return fmt.Sprintf("err message %d", a)
	}
	if n, _ := fmt.Sscanf(s, "protocompile/report: invalid value for Diagnostic.level: %d", &a); n == 1 {
		return fmt.Sprintf("err level %d", a)
	}
	if n, _ := fmt.Sscanf(s, "protocompile/report: invalid file index for diagnostic[%d].annotation[%d]: %d", &a, &b, &c); n == 3 {
		return fmt.Sprintf("err file %d %d %d", a, b, c)
	}
	if n, _ := fmt.Sscanf(s, "protocompile/report: out-of-bounds span for diagnostic[%d].annotation[%d]: [%d:%d]", &a, &b, &c, &d); n == 4 {
		return fmt.Sprintf("err span %d %d %d %d", a, b, c, d)
	}
	return "err other " + Canon(s)
}

// ---------------------------------------------------------------- reportproto (C37)

type reportProtoEngine struct{}

func init() {
	Register("reportproto", func() Engine { return reportProtoEngine{} })
	Register("canonicalize", func() Engine { return canonEngine{} })
}

func (reportProtoEngine) Name() string { return "reportproto" }
func (reportProtoEngine) Reset()       {}

func rpToProtoNoPanic(r *report.Report) (m proto.Message, panicked bool) {
	defer func() {
		if recover() != nil {
			panicked = true
		}
	}()
	return r.ToProto(), false
}

func (reportProtoEngine) Exec(op string) string {
	w := strings.Fields(op)
	if len(w) == 0 {
		return "bad-op"
	}
	var m proto.Message
	wire := false
	switch w[0] {
	case "rt", "rtw", "enc":
		ds, ok := rpParseReport(w[1:])
		if !ok {
			return "bad-op"
		}
		r := rpBuildReport(ds, rpNewFileTable())
		var panicked bool
		m, panicked = rpToProtoNoPanic(r)
		if panicked {
			return "panic"
		}
		if w[0] == "enc" {
			p, ok := verifhooks.ReportFromProto(m)
			if !ok {
				return "err not-a-report"
			}
			return rpJoin(append([]string{"ok"}, rpFmtProto(p)...))
		}
		wire = w[0] == "rtw"
	case "dec":
		p, ok := rpParseProto(w[1:])
		if !ok {
			return "bad-op"
		}
		m = verifhooks.ReportToProto(p)
	default:
		return "bad-op"
	}
	r2 := new(report.Report)
	var err error
	if wire {
		b, merr := proto.Marshal(m)
		if merr != nil {
			return "err wire"
		}
		err = r2.AppendFromProto(func(dst proto.Message) error { return proto.Unmarshal(b, dst) })
	} else {
		err = r2.AppendFromProto(func(dst proto.Message) error { proto.Merge(dst, m); return nil })
	}
	return rpJoin(append([]string{rpClassifyErr(err), ";"}, rpFmtReport(rpViewReport(r2, nil))...))
}

func (reportProtoEngine) Trivial(op, ans string) bool {
	return len(strings.Fields(op)) <= 1
}

func (reportProtoEngine) Class(op, ans string) string {
	w := strings.Fields(op)
	a := strings.Fields(ans)
	c := w[0]
	if len(a) >= 2 && a[0] == "err" {
		return c + ":err-" + a[1]
	}
	if len(a) >= 1 {
		return c + ":" + a[0]
	}
	return c
}

var rpTexts = [][]byte{nil, []byte("a"), []byte("ab"), []byte("abc"), []byte("h\xc3\xa9\n"), []byte("x\ny\n\xff")}
var rpPaths = [][]byte{[]byte("a.proto"), []byte("b.proto"), nil, []byte("d/\xc3\xa9.proto")}
var rpStrs = [][]byte{nil, []byte("m"), []byte("boom"), []byte("caf\xc3\xa9"), []byte("two words"), []byte("t")}

// rpBytes picks a short byte string; utf8Only keeps it valid UTF-8 (proto3 string fields).
func rpBytes(r *Rand, utf8Only, nonEmpty bool) []byte {
	for {
		var b []byte
		switch r.Intn(4) {
		case 0, 1:
			b = Pick(r, rpStrs)
		case 2:
			n := r.Intn(4)
			for i := 0; i < n; i++ {
				b = append(b, byte('a'+r.Intn(3)))
			}
		default:
			if utf8Only {
				b = []byte(string([]rune{rune(r.Intn(0x250) + 1)}))
			} else {
				b = r.Bytes(1 + r.Intn(3))
			}
		}
		if nonEmpty && len(b) == 0 {
			continue
		}
		return b
	}
}

// rpOffset picks an offset near the boundaries of a text of length n.
func rpOffset(r *Rand, n int, wild bool) int64 {
	if wild && r.Chance(1, 12) {
		return Pick(r, []int64{-1, int64(n) + 1, int64(n) + 2, 1 << 32, 1<<32 + 1, -(1 << 31)})
	}
	switch r.Intn(4) {
	case 0:
		return 0
	case 1:
		return int64(n)
	case 2:
		if n > 0 {
			return int64(n - 1)
		}
		return 0
	default:
		return int64(r.Intn(n + 1))
	}
}

type rpFile struct {
	fid        int
	path, text []byte
}

// rpRandReport draws a report. mode: 0 = well-formed (spans inside files, valid levels,
// non-empty messages, one text per path, a primary snippet), 1 = mostly well-formed, 2 = wild.
func rpRandReport(r *Rand, mode int, utf8Only bool, maxDiags int) []rpDiag {
	// files: distinct paths unless wild
	var files []rpFile
	nf := 1 + r.Intn(3)
	used := map[string]bool{}
	for i := 0; i < nf; i++ {
		p := Pick(r, rpPaths)
		if mode < 2 && used[string(p)] {
			continue
		}
		used[string(p)] = true
		files = append(files, rpFile{fid: i + 1, path: p, text: Pick(r, rpTexts)})
	}
	nd := r.Intn(maxDiags + 1)
	var ds []rpDiag
	for i := 0; i < nd; i++ {
		d := rpDiag{level: int64(2 + r.Intn(3)), msg: rpBytes(r, utf8Only, true)}
		if r.Chance(1, 6) {
			d.level = 1
		}
		if mode == 2 && r.Chance(1, 6) {
			d.level = Pick(r, []int64{0, 5, -1, 127, -128})
		}
		if mode == 2 && r.Chance(1, 8) {
			d.msg = nil
		}
		if r.Chance(1, 3) {
			d.order = int64(r.Intn(5) - 2)
		}
		if r.Bool() {
			d.tag = rpBytes(r, utf8Only, false)
		}
		if r.Chance(1, 4) {
			d.inFile = rpBytes(r, utf8Only, false)
		}
		for k := r.Intn(3); k > 0; k-- {
			d.notes = append(d.notes, rpBytes(r, utf8Only, false))
		}
		for k := r.Intn(4) / 2; k > 0; k-- {
			d.help = append(d.help, rpBytes(r, utf8Only, false))
		}
		for k := r.Intn(4) / 3; k > 0; k-- {
			d.debug = append(d.debug, rpBytes(r, utf8Only, false))
		}
		ns := r.Intn(4)
		for j := 0; j < ns; j++ {
			f := Pick(r, files)
			n := len(f.text)
			a, b := rpOffset(r, n, mode == 2), rpOffset(r, n, mode == 2)
			if a > b && !(mode == 2 && r.Chance(1, 4)) {
				a, b = b, a
			}
			// favour whole-file spans for the first use of a file so that the present code
			// sometimes succeeds
			if r.Chance(1, 3) {
				a, b = 0, int64(n)
			}
			s := rpSnip{fid: f.fid, path: f.path, text: f.text, s: a, e: b, msg: rpBytes(r, utf8Only, false), prim: j == 0, brk: r.Chance(1, 5)}
			if mode >= 1 && r.Chance(1, 6) {
				s.prim = r.Bool()
			}
			if r.Chance(1, 4) {
				for k := 1 + r.Intn(2); k > 0; k-- {
					l := int(b - a)
					if l < 0 || l > 8 {
						l = 0
					}
					ea, eb := rpOffset(r, l, mode == 2), rpOffset(r, l, mode == 2)
					if ea > eb {
						ea, eb = eb, ea
					}
					s.edits = append(s.edits, rpEdit{s: ea, e: eb, repl: rpBytes(r, utf8Only, false)})
				}
			}
			d.snips = append(d.snips, s)
		}
		ds = append(ds, d)
	}
	return ds
}

func rpRandProto(r *Rand) verifhooks.PReport {
	var p verifhooks.PReport
	nf := r.Intn(4)
	for i := 0; i < nf; i++ {
		p.Files = append(p.Files, verifhooks.PFile{Path: string(Pick(r, rpPaths)), Text: Pick(r, rpTexts)})
	}
	nd := r.Intn(4)
	for i := 0; i < nd; i++ {
		d := verifhooks.PDiagnostic{Message: string(rpBytes(r, false, !r.Chance(1, 8))), Level: int32(2 + r.Intn(3))}
		if r.Chance(1, 4) {
			d.Level = Pick(r, []int32{0, 1, 5, -1, 127, 128, 258, 259, 256 + 1, -254, 1 << 30, -(1 << 31)})
		}
		if r.Bool() {
			d.Tag = string(rpBytes(r, false, false))
		}
		if r.Chance(1, 4) {
			d.InFile = string(rpBytes(r, false, false))
		}
		for k := r.Intn(3); k > 0; k-- {
			d.Notes = append(d.Notes, string(rpBytes(r, false, false)))
		}
		for k := r.Intn(4) / 2; k > 0; k-- {
			d.Help = append(d.Help, string(rpBytes(r, false, false)))
		}
		for k := r.Intn(4) / 3; k > 0; k-- {
			d.Debug = append(d.Debug, string(rpBytes(r, false, false)))
		}
		na := r.Intn(4)
		for j := 0; j < na; j++ {
			a := verifhooks.PAnnotation{File: uint32(r.Intn(nf + 1)), Message: string(rpBytes(r, false, false)), Primary: r.Chance(1, 3), PageBreak: r.Chance(1, 5)}
			if r.Chance(1, 20) {
				a.File = Pick(r, []uint32{1 << 31, 1<<32 - 1, 7})
			}
			n := 0
			if int(a.File) < nf {
				n = len(p.Files[a.File].Text)
			}
			pick := func() uint32 {
				if r.Chance(1, 10) {
					return Pick(r, []uint32{uint32(n) + 1, uint32(n) + 2, 1<<32 - 1})
				}
				return uint32(rpOffset(r, n, false))
			}
			a.Start, a.End = pick(), pick()
			if a.Start > a.End && !r.Chance(1, 5) {
				a.Start, a.End = a.End, a.Start
			}
			for k := r.Intn(3) / 2; k > 0; k-- {
				a.Edits = append(a.Edits, verifhooks.PEdit{Start: pick(), End: pick(), Replace: string(rpBytes(r, false, false))})
			}
			d.Annotations = append(d.Annotations, a)
		}
		p.Diagnostics = append(p.Diagnostics, d)
	}
	return p
}

func (reportProtoEngine) Gen(r *Rand, tier string) [][]string {
	var ops []string
	add := func(k string, ds []rpDiag) { ops = append(ops, rpJoin(append([]string{k}, rpFmtReport(ds)...))) }
	addBoth := func(ds []rpDiag) { add("rt", ds); add("enc", ds) }
	thorough := tier == "thorough"

	// --- exhaustive small domain -------------------------------------------------
	add("rt", nil)
	add("rtw", nil)
	add("enc", nil)
	ops = append(ops, "dec")
	path := []byte("a.proto")
	texts := [][]byte{nil, []byte("a"), []byte("ab"), []byte("abc")}
	// one diagnostic, no snippet: every level in -1..6, empty and non-empty message
	for lv := int64(-1); lv <= 6; lv++ {
		for _, msg := range [][]byte{nil, []byte("m")} {
			addBoth([]rpDiag{{level: lv, msg: msg}})
			add("rtw", []rpDiag{{level: lv, msg: msg, tag: []byte("t"), inFile: path, notes: [][]byte{[]byte("n1"), nil}, help: [][]byte{[]byte("h")}, debug: [][]byte{[]byte("g")}}})
		}
	}
	// one diagnostic, one snippet: every text, every span with -1 <= start,end <= len+1
	for _, text := range texts {
		n := int64(len(text))
		for a := int64(-1); a <= n+1; a++ {
			for b := int64(-1); b <= n+1; b++ {
				for _, prim := range []bool{true, false} {
					ds := []rpDiag{{level: 2, msg: []byte("m"), snips: []rpSnip{{fid: 1, path: path, text: text, s: a, e: b, msg: []byte("here"), prim: prim}}}}
					addBoth(ds)
					if prim {
						add("rtw", ds)
					}
				}
			}
		}
	}
	// one diagnostic, two snippets on the same file: every pair of in-bounds spans
	for _, text := range texts {
		n := int64(len(text))
		for a := int64(0); a <= n; a++ {
			for b := a; b <= n; b++ {
				for c := int64(0); c <= n; c++ {
					for d := c; d <= n; d++ {
						ds := []rpDiag{{level: 3, msg: []byte("m"), snips: []rpSnip{
							{fid: 1, path: path, text: text, s: a, e: b, prim: true},
							{fid: 1, path: path, text: text, s: c, e: d, msg: []byte("x"), brk: true},
						}}}
						addBoth(ds)
					}
				}
			}
		}
	}
	// two diagnostics whose snippets use the same path: same file, or two files with
	// different texts (ToProto keeps the first text), or two files with different paths
	for _, t2 := range [][]byte{[]byte("ab"), []byte("abc"), []byte("xy")} {
		for _, p2 := range [][]byte{path, []byte("b.proto")} {
			for a := int64(0); a <= 2; a++ {
				for c := int64(0); c <= int64(len(t2)); c++ {
					ds := []rpDiag{
						{level: 2, msg: []byte("m1"), snips: []rpSnip{{fid: 1, path: path, text: []byte("ab"), s: a, e: 2, prim: true}}},
						{level: 4, msg: []byte("m2"), order: 1, snips: []rpSnip{{fid: 2, path: p2, text: t2, s: c, e: int64(len(t2)), prim: true,
							edits: []rpEdit{{s: 0, e: int64(len(t2)) - c, repl: []byte("r")}}}}},
					}
					addBoth(ds)
					add("rtw", ds)
				}
			}
		}
	}
	// uint32 truncation of offsets and edits
	for _, v := range []int64{-1, 1 << 32, 1<<32 + 1, 1<<32 - 1, -(1 << 32)} {
		addBoth([]rpDiag{{level: 2, msg: []byte("m"), snips: []rpSnip{
			{fid: 1, path: path, text: []byte("ab"), s: 0, e: 2, prim: true, edits: []rpEdit{{s: v, e: v + 1, repl: []byte("r")}}},
			{fid: 1, path: path, text: []byte("ab"), s: v, e: v},
		}}})
	}

	// --- random --------------------------------------------------------------
	cnt := 2500
	if thorough {
		cnt = 120000
	}
	for i := 0; i < cnt; i++ {
		mode := i % 3
		maxD := 3
		if i%10 == 0 {
			maxD = 6
		}
		if i%2 == 0 {
			ds := rpRandReport(r, mode, true, maxD)
			add("rtw", ds)
			if i%4 == 0 {
				add("enc", ds)
			}
		} else {
			ds := rpRandReport(r, mode, false, maxD)
			add("rt", ds)
			if i%4 == 1 {
				add("enc", ds)
			}
		}
		if i%2 == 0 {
			ops = append(ops, rpJoin(append([]string{"dec"}, rpFmtProto(rpRandProto(r))...)))
		}
	}
	cases := make([][]string, 0, len(ops))
	for _, o := range ops {
		cases = append(cases, []string{o})
	}
	return cases
}

// ---------------------------------------------------------------- canonicalize (C36)

// op: canon <keepDuplicates01> <report tokens> ; <permutation of 0..n-1>
// answer: <Canonicalize(list)> ; <Canonicalize(permuted list)> ; <Canonicalize(Canonicalize(list))>
type canonEngine struct{}

func (canonEngine) Name() string { return "canonicalize" }
func (canonEngine) Reset()       {}

func (canonEngine) Exec(op string) string {
	w := strings.Fields(op)
	if len(w) < 3 || w[0] != "canon" || (w[1] != "0" && w[1] != "1") {
		return "bad-op"
	}
	sep := -1
	for i, t := range w {
		if t == ";" {
			sep = i
			break
		}
	}
	if sep < 0 {
		return "bad-op"
	}
	ds, ok := rpParseReport(w[2:sep])
	if !ok || len(w)-sep-1 != len(ds) {
		return "bad-op"
	}
	perm := make([]int, 0, len(ds))
	seen := make([]bool, len(ds))
	for _, t := range w[sep+1:] {
		v, err := strconv.Atoi(t)
		if err != nil || v < 0 || v >= len(ds) || seen[v] || strings.HasPrefix(t, "+") || strings.HasPrefix(t, "-") {
			return "bad-op"
		}
		seen[v] = true
		perm = append(perm, v)
	}
	keep := w[1] == "1"
	ft := rpNewFileTable()
	r1 := rpBuildReport(ds, ft)
	r1.KeepDuplicates = keep
	r1.Canonicalize()
	out := rpFmtReport(rpViewReport(r1, ft))
	pds := make([]rpDiag, len(ds))
	for i, j := range perm {
		pds[i] = ds[j]
	}
	r2 := rpBuildReport(pds, ft)
	r2.KeepDuplicates = keep
	r2.Canonicalize()
	out = append(append(out, ";"), rpFmtReport(rpViewReport(r2, ft))...)
	r1.Canonicalize()
	out = append(append(out, ";"), rpFmtReport(rpViewReport(r1, ft))...)
	return rpJoin(out)
}

func (canonEngine) Trivial(op, ans string) bool {
	return strings.Count(op, " D ") <= 1
}

func (canonEngine) Class(op, ans string) string {
	n := strings.Count(op, " D ")
	c := "n=" + strconv.Itoa(n)
	if n > 12 {
		c = "n>12"
	}
	var parts []string
	cur := []string{}
	for _, t := range strings.Fields(ans) {
		if t == ";" {
			parts = append(parts, rpJoin(cur))
			cur = cur[:0]
			continue
		}
		cur = append(cur, t)
	}
	parts = append(parts, rpJoin(cur))
	if len(parts) == 3 {
		if parts[0] != parts[1] {
			c += ":perm-dependent"
		}
		if parts[0] != parts[2] {
			c += ":not-idempotent"
		}
	}
	return c
}

type cnFile struct {
	fid        int
	path, text []byte
}

var cnText = []byte("xyz")

func cnSnip(f cnFile, a, b int64, prim bool) rpSnip {
	return rpSnip{fid: f.fid, path: f.path, text: f.text, s: a, e: b, prim: prim}
}

// cnPool is a set of diagnostics with planted ties: equal sort keys with different
// contents, equal dedup keys, equal paths on distinct file objects.
func cnPool() []rpDiag {
	f1 := cnFile{1, []byte("a"), cnText}
	f2 := cnFile{2, []byte("a"), cnText} // same path and text, another *File
	f3 := cnFile{3, []byte("b"), cnText}
	f5 := cnFile{5, []byte("a"), []byte("xyzw")} // same path, another text
	m := []byte("m")
	t := []byte("t")
	return []rpDiag{
		{level: 2, msg: m, snips: []rpSnip{cnSnip(f1, 0, 1, true)}},                                         // 0
		{level: 2, msg: m, snips: []rpSnip{cnSnip(f1, 0, 1, true)}, notes: [][]byte{[]byte("x")}},           // 1: key tie with 0
		{level: 2, msg: m, tag: t, snips: []rpSnip{cnSnip(f1, 0, 1, true)}},                                 // 2
		{level: 2, msg: m, tag: t, snips: []rpSnip{cnSnip(f1, 0, 1, true)}, help: [][]byte{[]byte("y")}},    // 3: key+dedup tie with 2
		{level: 2, msg: m, tag: t, snips: []rpSnip{cnSnip(f2, 0, 1, true)}},                                 // 4: key tie with 2, other file object
		{level: 2, msg: m, tag: t, order: 1, snips: []rpSnip{cnSnip(f1, 0, 1, true)}},                       // 5: dedup key of 2, later stage
		{level: 3, msg: m, inFile: []byte("a")},                                                             // 6: no span
		{level: 2, msg: []byte("n"), tag: t, snips: []rpSnip{cnSnip(f3, 1, 2, true)}},                       // 7
		{level: 3, msg: m, snips: []rpSnip{cnSnip(f1, 0, 1, true)}},                                         // 8: key tie with 0, level differs
		{level: 2, msg: m, tag: t, snips: []rpSnip{cnSnip(f3, 0, 0, false), cnSnip(f1, 0, 1, true)}},        // 9: primary is the second snippet
		{level: 2, msg: []byte("n"), tag: t, snips: []rpSnip{cnSnip(f1, 0, 1, true)}},                       // 10: dedup key of 2, greater message
		{level: 4, msg: m, tag: []byte("u"), snips: []rpSnip{cnSnip(f1, 0, 2, true)}, debug: [][]byte{nil}}, // 11
		{level: 2, msg: m, tag: t, snips: []rpSnip{cnSnip(f5, 0, 1, true)}},                                 // 12: key tie with 2, file with another text
	}
}

func cnRandDiag(r *Rand, unique int) rpDiag {
	files := []cnFile{{1, []byte("a"), cnText}, {2, []byte("a"), cnText}, {3, []byte("b"), cnText}, {4, nil, cnText}, {5, []byte("a"), []byte("xyzw")}}
	d := rpDiag{level: int64(2 + r.Intn(3)), msg: Pick(r, [][]byte{[]byte("m"), []byte("n"), []byte("ma")})}
	if r.Chance(1, 40) {
		d.level = -1 // the value Canonicalize uses as its deletion mark
	}
	if unique >= 0 {
		d.msg = []byte(fmt.Sprintf("m%04d", unique))
	}
	if r.Chance(1, 3) {
		d.order = int64(r.Intn(3) - 1)
	}
	if r.Chance(2, 3) {
		d.tag = Pick(r, [][]byte{[]byte("t"), []byte("u"), []byte("t\x00")})
	}
	if r.Chance(1, 5) {
		d.inFile = []byte("a")
	}
	if r.Chance(1, 3) {
		d.notes = append(d.notes, Pick(r, [][]byte{[]byte("x"), []byte("y")}))
	}
	ns := r.Intn(3)
	primAt := r.Intn(3)
	for j := 0; j < ns; j++ {
		a := int64(r.Intn(3))
		b := a + int64(r.Intn(2))
		d.snips = append(d.snips, cnSnip(Pick(r, files), a, b, j == primAt || (j == 0 && primAt >= ns)))
	}
	if r.Chance(1, 12) {
		for j := range d.snips {
			d.snips[j].prim = r.Bool()
		}
	}
	return d
}

func cnPermutations(n int) [][]int {
	if n == 0 {
		return [][]int{{}}
	}
	var out [][]int
	for _, p := range cnPermutations(n - 1) {
		for i := 0; i <= len(p); i++ {
			q := append(append(append([]int{}, p[:i]...), n-1), p[i:]...)
			out = append(out, q)
		}
	}
	return out
}

func cnRandPerm(r *Rand, n int) []int {
	p := make([]int, n)
	for i := range p {
		p[i] = i
	}
	for i := n - 1; i > 0; i-- {
		j := r.Intn(i + 1)
		p[i], p[j] = p[j], p[i]
	}
	return p
}

func (canonEngine) Gen(r *Rand, tier string) [][]string {
	var ops []string
	thorough := tier == "thorough"
	add := func(keep bool, ds []rpDiag, perm []int) {
		t := append([]string{"canon", rpB01(keep)}, rpFmtReport(ds)...)
		t = append(t, ";")
		for _, i := range perm {
			t = append(t, strconv.Itoa(i))
		}
		ops = append(ops, rpJoin(t))
	}
	pool := cnPool()
	// exhaustive: every multiset of pool diagnostics up to size k, every permutation
	full := 3
	if thorough {
		full = 4
	}
	emit := func(cur []rpDiag) {
		perms := cnPermutations(len(cur))
		if len(cur) > full {
			// sampled: reversal, one rotation, three random cnPermutations
			n := len(cur)
			rev := make([]int, n)
			rot := make([]int, n)
			for i := range rev {
				rev[i] = n - 1 - i
				rot[i] = (i + 1) % n
			}
			perms = [][]int{rev, rot, cnRandPerm(r, n), cnRandPerm(r, n), cnRandPerm(r, n)}
		}
		for _, p := range perms {
			add(false, cur, p)
			if len(cur) <= 3 {
				add(true, cur, p)
			}
		}
	}
	var rec func(size, start int, cur []rpDiag)
	rec = func(size, start int, cur []rpDiag) {
		if len(cur) == size {
			emit(cur)
			return
		}
		for i := start; i < len(pool); i++ {
			rec(size, i, append(append([]rpDiag{}, cur...), pool[i]))
		}
	}
	for size := 0; size <= full+1; size++ { // smallest lists first: the first failure is a small one
		rec(size, 0, nil)
	}
	// a few lists of 5 and 6 with every permutation
	lists := 2
	if thorough {
		lists = 12
	}
	for l := 0; l < lists; l++ {
		n := 5 + l%2
		var ds []rpDiag
		for i := 0; i < n; i++ {
			if r.Bool() {
				ds = append(ds, Pick(r, pool))
			} else {
				ds = append(ds, cnRandDiag(r, -1))
			}
		}
		for _, p := range cnPermutations(n) {
			add(l%3 == 2, ds, p)
		}
	}
	// random lists up to 12 diagnostics (the range where slices.SortFunc is insertion sort)
	cnt := 2500
	if thorough {
		cnt = 100000
	}
	for i := 0; i < cnt; i++ {
		n := r.Intn(9)
		if i%5 == 0 {
			n = 9 + r.Intn(4)
		}
		var ds []rpDiag
		for j := 0; j < n; j++ {
			if r.Chance(1, 4) {
				ds = append(ds, Pick(r, pool))
			} else {
				ds = append(ds, cnRandDiag(r, -1))
			}
		}
		add(r.Chance(1, 4), ds, cnRandPerm(r, n))
	}
	// more than 12 diagnostics, all sort keys distinct (any correct sort gives the same list)
	big := 60
	if thorough {
		big = 3000
	}
	for i := 0; i < big; i++ {
		n := 13 + r.Intn(28)
		var ds []rpDiag
		ids := cnRandPerm(r, n)
		for j := 0; j < n; j++ {
			ds = append(ds, cnRandDiag(r, ids[j]))
		}
		add(r.Chance(1, 4), ds, cnRandPerm(r, n))
	}
	cases := make([][]string, 0, len(ops))
	for _, o := range ops {
		cases = append(cases, []string{o})
	}
	return cases
}
