// Command pcvh is the Go half of the correspondence checks: it generates op
// lines, executes them against the real protocompile code, and writes both the
// ops and the implementation's answers.
package main

import (
	"bufio"
	"encoding/json"
	"flag"
	"fmt"
	"os"
	"path/filepath"
	"sort"
	"strings"
	"sync"

	"verif/harness/engines"
)

func die(f string, a ...any) {
	fmt.Fprintf(os.Stderr, f+"\n", a...)
	os.Exit(2)
}

func main() {
	if len(os.Args) < 3 {
		die("usage: pcvh run|replay <engine> [flags]; engines: %v", engines.Names())
	}
	mode, name := os.Args[1], os.Args[2]
	if mode == "one" && len(os.Args) == 4 {
		// execute a single op in this (child) process and print its answer
		e, ok := engines.Get(name)
		if !ok {
			die("unknown engine %q", name)
		}
		e.Reset()
		fmt.Println(engines.SafeExec(e, os.Args[3]))
		return
	}
	fs := flag.NewFlagSet("pcvh", flag.ExitOnError)
	seed := fs.Uint64("seed", 1, "PRNG seed")
	tier := fs.String("tier", "quick", "quick|thorough")
	out := fs.String("out", "", "output directory (run) or answers file (replay)")
	in := fs.String("in", "", "ops file (replay)")
	corpus := fs.String("corpus", "", "corpus directory: *.ops files run first")
	_ = fs.Parse(os.Args[3:])
	e, ok := engines.Get(name)
	if !ok {
		die("unknown engine %q; engines: %v", name, engines.Names())
	}
	switch mode {
	case "run":
		run(e, *seed, *tier, *out, *corpus)
	case "replay":
		replay(e, *in, *out)
	default:
		die("unknown mode %q", mode)
	}
}

func readCases(path string) [][]string {
	f, err := os.Open(path)
	if err != nil {
		die("%v", err)
	}
	defer f.Close()
	var cases [][]string
	var cur []string
	sc := bufio.NewScanner(f)
	sc.Buffer(make([]byte, 1<<20), 1<<28)
	for sc.Scan() {
		l := sc.Text()
		if l == "reset" {
			if cur != nil {
				cases = append(cases, cur)
			}
			cur = []string{}
			continue
		}
		if l == "" || strings.HasPrefix(l, "#") {
			continue
		}
		cur = append(cur, l)
	}
	if cur != nil {
		cases = append(cases, cur)
	}
	return cases
}

type stats struct {
	Engine       string         `json:"engine"`
	Seed         uint64         `json:"seed"`
	Tier         string         `json:"tier"`
	Cases        int            `json:"cases"`
	CorpusCases  int            `json:"corpus_cases"`
	Ops          int            `json:"ops"`
	DistinctOps  int            `json:"distinct_ops"`
	Nontrivial   int            `json:"distinct_nontrivial"`
	Panics       int            `json:"panics"`
	Classes      map[string]int `json:"classes"`
	Samples      []string       `json:"samples"`
	OpsPerCaseMx int            `json:"max_ops_per_case"`
	ConcCases    int            `json:"conc_cases,omitempty"`
	ConcDiffs    int            `json:"conc_diffs,omitempty"`
}

// seqAnswers, when non-nil, receives the answers of the sequential pass, case by case.
var seqAnswers *[][]string

func execAll(e engines.Engine, cases [][]string, opsW, ansW *bufio.Writer, st *stats) {
	seen := map[string]bool{}
	tr, _ := e.(engines.Trivialer)
	cl, _ := e.(engines.Classifier)
	for ci, c := range cases {
		e.Reset()
		fmt.Fprintln(opsW, "reset")
		fmt.Fprintln(ansW, "ok")
		if len(c) > st.OpsPerCaseMx {
			st.OpsPerCaseMx = len(c)
		}
		if seqAnswers != nil {
			*seqAnswers = append(*seqAnswers, make([]string, 0, len(c)))
		}
		for _, op := range c {
			ans := engines.SafeExec(e, op)
			if seqAnswers != nil {
				(*seqAnswers)[ci] = append((*seqAnswers)[ci], ans)
			}
			fmt.Fprintln(opsW, op)
			fmt.Fprintln(ansW, ans)
			st.Ops++
			if strings.HasPrefix(ans, "panic ") {
				st.Panics++
			}
			key := op
			if len(c) > 1 {
				// stateful engines: an op is distinct per (case prefix) — approximate by op+answer
				key = op + "\t" + ans
			}
			if !seen[key] {
				seen[key] = true
				st.DistinctOps++
				if tr == nil || !tr.Trivial(op, ans) {
					st.Nontrivial++
				}
			}
			if cl != nil {
				st.Classes[cl.Class(op, ans)]++
			}
			if len(st.Samples) < 6 && (ci%97 == 0 || ci < 2) {
				st.Samples = append(st.Samples, engines.Canon(op+" => "+ans))
			}
		}
	}
}

func run(e engines.Engine, seed uint64, tier, out, corpus string) {
	if out == "" {
		die("-out required")
	}
	if err := os.MkdirAll(out, 0o755); err != nil {
		die("%v", err)
	}
	st := &stats{Engine: e.Name(), Seed: seed, Tier: tier, Classes: map[string]int{}}
	var cases [][]string
	if corpus != "" {
		files, _ := filepath.Glob(filepath.Join(corpus, "*.ops"))
		sort.Strings(files)
		for _, f := range files {
			cases = append(cases, readCases(f)...)
		}
		st.CorpusCases = len(cases)
	}
	cases = append(cases, e.Gen(engines.NewRand(seed), tier)...)
	st.Cases = len(cases)
	of, err := os.Create(filepath.Join(out, "ops.txt"))
	if err != nil {
		die("%v", err)
	}
	af, err := os.Create(filepath.Join(out, "impl.txt"))
	if err != nil {
		die("%v", err)
	}
	ow, aw := bufio.NewWriterSize(of, 1<<20), bufio.NewWriterSize(af, 1<<20)
	cs, concSafe := e.(engines.ConcSafe)
	var seq [][]string
	if concSafe {
		seqAnswers = &seq
	}
	execAll(e, cases, ow, aw, st)
	seqAnswers = nil
	ow.Flush()
	aw.Flush()
	of.Close()
	af.Close()
	if concSafe {
		diffs := concPass(e.Name(), cs.ConcWorkers(), cases, seq)
		st.ConcCases = len(cases)
		st.ConcDiffs = len(diffs)
		if err := os.WriteFile(filepath.Join(out, "conc.txt"), []byte(strings.Join(diffs, "")), 0o644); err != nil {
			die("%v", err)
		}
	}
	b, _ := json.MarshalIndent(st, "", " ")
	if err := os.WriteFile(filepath.Join(out, "stats.json"), b, 0o644); err != nil {
		die("%v", err)
	}
}

// concPass executes every case again, spread over `workers` goroutines with one engine value each,
// and returns one line per answer that differs from the sequential pass:
// case index, op index, op, sequential answer, concurrent answer (tab separated).
func concPass(name string, workers int, cases [][]string, seq [][]string) []string {
	if workers < 2 {
		workers = 2
	}
	var mu sync.Mutex
	var diffs []string
	var wg sync.WaitGroup
	for w := 0; w < workers; w++ {
		wg.Add(1)
		go func(w int) {
			defer wg.Done()
			e, ok := engines.Get(name)
			if !ok {
				return
			}
			for ci := w; ci < len(cases); ci += workers {
				e.Reset()
				for oi, op := range cases[ci] {
					ans := engines.SafeExec(e, op)
					if ans != seq[ci][oi] {
						mu.Lock()
						if len(diffs) < 200 {
							diffs = append(diffs, fmt.Sprintf("%d\t%d\t%s\t%s\t%s\n", ci, oi, op, engines.Canon(seq[ci][oi]), engines.Canon(ans)))
						}
						mu.Unlock()
					}
				}
			}
		}(w)
	}
	wg.Wait()
	sort.Strings(diffs)
	return diffs
}

func replay(e engines.Engine, in, out string) {
	cases := readCases(in)
	st := &stats{Classes: map[string]int{}}
	var ow *bufio.Writer
	devnull, _ := os.Create(os.DevNull)
	ow = bufio.NewWriter(devnull)
	af := os.Stdout
	if out != "" {
		var err error
		af, err = os.Create(out)
		if err != nil {
			die("%v", err)
		}
	}
	aw := bufio.NewWriter(af)
	execAll(e, cases, ow, aw, st)
	aw.Flush()
}
