#!/bin/sh
# Builds the framework from files on disk only (offline).
set -e
cd "$(dirname "$0")"
export GOFLAGS=-mod=mod GOPROXY=off GOWORK=off
unset GOSUMDB || true
mkdir -p .cache evidence replays harness/bin
python3 genregistry.py
(cd extract && GOTOOLCHAIN=local go build -o extract . && ./extract "${VERIF_REPO:-/repo}" ../lean/PCV/Gen)
cp "${VERIF_REPO:-/repo}/go.sum" harness/go.sum
(cd harness && go build -tags verif -o bin/pcvh ./cmd/pcvh)
(cd lean && lake build PCV pcvdriver)
