#!/bin/sh
# Builds the framework from files on disk only (offline).
set -e
cd "$(dirname "$0")"
export GOFLAGS=-mod=mod GOPROXY=off GOWORK=off
unset GOSUMDB || true
mkdir -p .cache evidence replays harness/bin
python3 genregistry.py
if [ -f extract/extract.py ]; then python3 extract/extract.py "${VERIF_REPO:-/repo}" lean/PCV/Gen; fi
cp "${VERIF_REPO:-/repo}/go.sum" harness/go.sum
(cd harness && go build -tags verif -o bin/pcvh ./cmd/pcvh)
(cd lean && lake build PCV pcvdriver)
