#!/usr/bin/env python3
"""Runs the repository's test suite with the verif guard OFF and compares with BASELINE.json stable_pass."""
import json, subprocess, sys, os
base = json.load(open('/root/.vp/BASELINE.json'))
stable = set(base['stable_pass'])
env = dict(os.environ); env.pop('GOFLAGS', None)
p = subprocess.run('cd /repo && go test -json -vet=off -count=1 -timeout 25m ./... ; cd /repo/internal/benchmarks && go test -json -vet=off -count=1 -timeout 25m ./... ', shell=True, capture_output=True, text=True, env=env)
passed, failed = set(), set()
for line in p.stdout.splitlines():
    try: ev = json.loads(line)
    except Exception: continue
    if ev.get('Test') and ev.get('Action') in ('pass', 'fail'):
        (passed if ev['Action'] == 'pass' else failed).add(f"{ev['Package']}::{ev['Test']}")
missing = sorted(stable - passed)
print('stable:', len(stable), 'passed now:', len(passed & stable), 'missing:', len(missing))
for m in missing[:40]: print('  NOT PASSING:', m, '(failed)' if m in failed else '(not run)')
sys.exit(1 if missing else 0)
