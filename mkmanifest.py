#!/usr/bin/env python3
"""Regenerates MANIFEST.json from checks.d/*.json, not_applicable.json and properties.jsonl."""
import json, glob, os, subprocess
ROOT = os.path.dirname(os.path.abspath(__file__))
props = [json.loads(l) for l in open(os.path.join(ROOT, 'properties.jsonl'))]
checks = {}
for f in sorted(glob.glob(os.path.join(ROOT, 'checks.d', '*.json'))):
    c = json.load(open(f)); checks[c['property_id']] = c
na = json.load(open(os.path.join(ROOT, 'not_applicable.json')))
hooks = json.load(open(os.path.join(ROOT, 'hooks.json')))
man = {
    'version': 1,
    'setup_cmd': './setup.sh',
    'hooks': hooks,
    'engines': [],
    'checks': [],
    'notes': 'Technique: machine-checked proof in Lean 4 (lean/PCV) of hand-written models, tied to /repo on every run by '
             'regenerated facts (extract/ -> lean/PCV/Gen) and by a differential correspondence check (harness/ vs the '
             'compiled Lean driver). See DESIGN.md.',
    'not_applicable': [],
}
engines = {}
for pid, c in checks.items():
    for e in c.get('engines', []):
        engines.setdefault(e, []).append(pid)
    man['checks'].append({
        'property_id': pid,
        'quick_cmd': f'./check {pid} --tier quick',
        'thorough_cmd': f'./check {pid} --tier thorough',
        'evidence_file': f'evidence/{pid}.json',
        'replay_cmd_template': f'./check {pid} --replay {{path}}',
        'engine': ','.join(c.get('engines', [])) or 'lean-only',
        'level_claimed': {'category': c.get('level', 'proof'), 'text': c['level_text'],
                          'design_ref': c.get('design_ref', 'DESIGN.md section 7')},
        'level_note': c['level_note'],
        'technique': c['technique'],
    })
for e, ps in sorted(engines.items()):
    man['engines'].append({'name': e, 'path': f'harness/engines + lean/PCV/Engines', 'serves_properties': sorted(ps),
                           'kind_free_text': 'Go harness engine (real code, in-process) + Lean model/spec driver engine'})
for p in props:
    if p['id'] not in checks:
        man['not_applicable'].append({'property_id': p['id'],
                                      'reason': na.get(p['id'], 'not yet covered by a theorem and a correspondence check in this framework')})
json.dump(man, open(os.path.join(ROOT, 'MANIFEST.json'), 'w'), indent=1)
print('checks:', len(man['checks']), 'not_applicable:', len(man['not_applicable']))
