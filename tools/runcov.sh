#!/bin/bash
cd /verif
for e in optvalidate incr_diag attrs canonicalize clone comments decimal dom dual escape exec fastscan format forms incr incr_fail incr_queries intern intersect lex lexpos lextotal link literal nesting options optmodes relink reporter reportproto resolve retention roundtrip sourceloc srcinfo symbols toposort trie unusedimports visibility xlex xparse; do
  mkdir -p /var/tmp/cov/$e /var/tmp/covout/$e
  c=""; [ -d corpus/$e ] && c="-corpus corpus/$e"
  GOCOVERDIR=/var/tmp/cov/$e timeout 900 ${PCVH_COVER:-/var/tmp/pcvh-cover4} run $e -seed 1 -tier quick -out /var/tmp/covout/$e $c >/dev/null 2>/var/tmp/covout/$e/err.txt
  echo "$e rc=$?"
done
