#!/usr/bin/env python3
# usage: covreport.py Cnn  -> uncovered blocks in the anchor files of the property, using the coverage of its engines
import json,sys,subprocess,os,re,collections
P=sys.argv[1]
props={json.loads(l)['id']:json.loads(l) for l in open('/verif/properties.jsonl')}
cfg=json.load(open(f'/verif/checks.d/{P}.json'))
engines=cfg['engines']
dirs=','.join(f'/var/tmp/cov/{e}' for e in engines if os.path.isdir(f'/var/tmp/cov/{e}') and os.listdir(f'/var/tmp/cov/{e}'))
out=f'/var/tmp/cov/{P}.txt'
subprocess.run(['go','tool','covdata','textfmt','-i='+dirs,'-o='+out,'-pkg=github.com/bufbuild/protocompile/...'],check=True,env=dict(os.environ,GOFLAGS='-mod=mod',GOPROXY='off'),cwd='/verif/harness')
files=props[P]['anchors']['files']
extra=sys.argv[2:]  # additional file paths
files=files+extra
blocks=collections.defaultdict(list)
for l in open(out):
    if l.startswith('mode:'): continue
    m=re.match(r'(.*):(\d+)\.(\d+),(\d+)\.(\d+) (\d+) (\d+)',l)
    f=m.group(1).replace('github.com/bufbuild/protocompile/','')
    blocks[f].append((int(m.group(2)),int(m.group(4)),int(m.group(6)),int(m.group(7))))
for f in files:
    bs=blocks.get(f,[])
    tot=sum(b[2] for b in bs); cov=sum(b[2] for b in bs if b[3]>0)
    print(f'== {f}: {cov}/{tot} statements covered' if tot else f'== {f}: no data')
    src=open('/repo/'+f).read().split('\n') if os.path.exists('/repo/'+f) else []
    unc=sorted(set((b[0],b[1]) for b in bs if b[3]==0))
    # merge adjacent
    merged=[]
    for a,b in unc:
        if merged and a<=merged[-1][1]+1: merged[-1]=(merged[-1][0],max(b,merged[-1][1]))
        else: merged.append((a,b))
    for a,b in merged:
        line=src[a-1].strip() if src else ''
        print(f'   {a}-{b}: {line[:110]}')
