#!/bin/bash
# usage: seedtest.sh <seed-name e.g. c37> <Property e.g. C37> <demo-dest-dir-in-tree> <go test args...>
# 1. confirms the demonstration in the sub-agent's scratch worktree (fails with patch, passes without)
# 2. applies the patch to /repo, runs ./check <Property> (quick), restores /repo
# 3. stores everything under /verif/seeded/<seed-name>/
set -u
S=$1; P=$2; DEST=$3; shift 3
WT=/tmp/${SEEDPFX:-seed-}$S; OUT=/tmp/${SEEDPFX:-seed-}$S-out; N=${SEEDNAME:-$S}
export GOFLAGS=-mod=mod GOPROXY=off GOWORK=off
mkdir -p /verif/seeded/$N
cp $OUT/patch.diff /verif/seeded/$N/patch.diff
cp -r $OUT/demo /verif/seeded/$N/ 2>/dev/null
cp $OUT/meta.json /verif/seeded/$N/agent_meta.json 2>/dev/null
echo "== demo WITH patch (expect FAIL)"
git -C $WT checkout -q -- . ; git -C $WT apply $OUT/patch.diff || { echo "patch does not apply in worktree"; }
cp $OUT/demo/*.go $WT/$DEST/
(cd $WT && go test -count=1 "$@" 2>&1 | tail -5); 
echo "== demo WITHOUT patch (expect ok)"
git -C $WT checkout -q -- .
(cd $WT && go test -count=1 "$@" 2>&1 | tail -3)
for f in $OUT/demo/*.go; do rm -f $WT/$DEST/$(basename $f); done
echo "== apply to /repo and run check"
if git -C /repo apply --check $OUT/patch.diff; then
  git -C /repo apply $OUT/patch.diff
  (cd /repo && go build ./... 2>&1 | tail -3)
  (cd /verif && timeout 1500 ./check $P 2>&1 | cut -c1-400 | tee /verif/seeded/$N/check_quick.txt)
  git -C /repo checkout -q -- .
  # the run above overwrote evidence/$P.json with the record of a PATCHED tree: rewrite it from the clean tree
  (cd /verif && ./check $P >/dev/null 2>&1; echo "   clean-tree re-run of $P: rc=$?")
  R=$(grep -o 'replay=[^ ]*' /verif/seeded/$N/check_quick.txt | head -1 | cut -d= -f2)
  [ -n "$R" ] && python3 -c "
import json,sys
d=json.load(open('/verif/'+sys.argv[1]))
print('   replay:', {k:str(d.get(k))[:160] for k in ('what','engine','kind','verdict') if d.get(k)})" "$R"
else
  echo "PATCH DOES NOT APPLY TO /repo HEAD"
fi
git -C /repo status --short | grep -v "^??" | head
