package main

// consts: constant tables regenerated from source. Each extractor is tiny and purely syntactic.

func consts(repo, out string) error {
	return nil
}
