// Command extract regenerates Lean facts from /repo's Go source (tie 1 of DESIGN.md 2.3).
// It reads source with go/parser only (no type checking) and writes
//   <out>/LockSites.lean   — every access to a guarded field with the locks lexically held
//   <out>/Consts.lean      — constant tables (report levels, char6 alphabet, ...)
// Output is deterministic; files are rewritten only when their content changes.
package main

import (
	"bytes"
	"fmt"
	"go/ast"
	"go/parser"
	"go/printer"
	"go/token"
	"os"
	"path/filepath"
	"sort"
	"strconv"
	"strings"
)

type guard struct {
	file   string            // path relative to repo
	group  string            // Lean name of the generated list
	fields map[string]string // guarded field -> lock field name
}

var guards = []guard{
	{"reporter/reporter.go", "reporterSites", map[string]string{"reporter": "mu", "errsReported": "mu", "err": "mu"}},
	{"linker/symbols.go", "symbolsSites", map[string]string{"children": "mu", "files": "mu", "symbols": "mu", "exts": "mu", "extDecls": "extDeclsMu"}},
}

type site struct {
	fn, field, recv string
	line            int
	write           bool
	heldW, heldR    bool
	lock            string
}

type held map[string]string // lock expr -> "W" | "R"

func (h held) copy() held {
	c := held{}
	for k, v := range h {
		c[k] = v
	}
	return c
}

func intersect(a, b held) held {
	c := held{}
	for k, v := range a {
		if w, ok := b[k]; ok {
			if v == w {
				c[k] = v
			} else {
				c[k] = "R"
			}
		}
	}
	return c
}

func exprStr(fset *token.FileSet, e ast.Expr) string {
	var b bytes.Buffer
	_ = printer.Fprint(&b, fset, e)
	return b.String()
}

type walker struct {
	fset  *token.FileSet
	g     guard
	fn    string
	sites []site
}

// lockCall recognises X.Lock(), X.RLock(), X.Unlock(), X.RUnlock().
func (w *walker) lockCall(e ast.Expr) (lock, op string, ok bool) {
	c, isCall := e.(*ast.CallExpr)
	if !isCall || len(c.Args) != 0 {
		return
	}
	sel, isSel := c.Fun.(*ast.SelectorExpr)
	if !isSel {
		return
	}
	switch sel.Sel.Name {
	case "Lock", "RLock", "Unlock", "RUnlock":
		return exprStr(w.fset, sel.X), sel.Sel.Name, true
	}
	return
}

func (w *walker) record(e ast.Expr, h held, write bool) {
	ast.Inspect(e, func(n ast.Node) bool {
		if fl, ok := n.(*ast.FuncLit); ok {
			// closures run while the enclosing locks are held only if called synchronously;
			// walk.Descriptors callbacks are: analyse with the current lock set
			w.block(fl.Body.List, h.copy())
			return false
		}
		if call, ok := n.(*ast.CallExpr); ok {
			if csel, ok := call.Fun.(*ast.SelectorExpr); ok && strings.HasSuffix(csel.Sel.Name, "Locked") {
				recv := exprStr(w.fset, csel.X)
				lock := recv + ".mu"
				s := site{fn: w.fn, field: "call:" + csel.Sel.Name, recv: recv, line: w.fset.Position(csel.Pos()).Line,
					write: true, lock: lock}
				switch h[lock] {
				case "W":
					s.heldW = true
				case "R":
					s.heldR = true
				}
				w.sites = append(w.sites, s)
			}
		}
		sel, ok := n.(*ast.SelectorExpr)
		if !ok {
			return true
		}
		lockField, guarded := w.g.fields[sel.Sel.Name]
		if !guarded {
			return true
		}
		recv := exprStr(w.fset, sel.X)
		lock := recv + "." + lockField
		s := site{fn: w.fn, field: sel.Sel.Name, recv: recv, line: w.fset.Position(sel.Pos()).Line,
			write: write, lock: lock}
		switch h[lock] {
		case "W":
			s.heldW = true
		case "R":
			s.heldR = true
		}
		w.sites = append(w.sites, s)
		return true
	})
}

// lhsBase: for `X.f[k] = v` or `X.f = v` the written selector is X.f.
func (w *walker) assignTarget(e ast.Expr, h held) {
	switch t := e.(type) {
	case *ast.IndexExpr:
		w.record(t.X, h, true)
		w.record(t.Index, h, false)
	case *ast.SelectorExpr:
		if _, guarded := w.g.fields[t.Sel.Name]; guarded {
			w.record(t, h, true)
		} else {
			w.record(t, h, false)
		}
	default:
		w.record(e, h, false)
	}
}

func (w *walker) stmt(s ast.Stmt, h held) held {
	switch t := s.(type) {
	case *ast.ExprStmt:
		if lock, op, ok := w.lockCall(t.X); ok {
			switch op {
			case "Lock":
				h[lock] = "W"
			case "RLock":
				h[lock] = "R"
			default:
				delete(h, lock)
			}
			return h
		}
		if c, ok := t.X.(*ast.CallExpr); ok {
			if id, ok := c.Fun.(*ast.Ident); ok && id.Name == "delete" && len(c.Args) == 2 {
				w.record(c.Args[0], h, true)
				w.record(c.Args[1], h, false)
				return h
			}
		}
		w.record(t.X, h, false)
	case *ast.DeferStmt:
		if _, _, ok := w.lockCall(t.Call); ok {
			return h // deferred unlock: lock stays held to the end of the function
		}
		w.record(t.Call, h, false)
	case *ast.AssignStmt:
		for _, r := range t.Rhs {
			w.record(r, h, false)
		}
		for _, l := range t.Lhs {
			w.assignTarget(l, h)
		}
	case *ast.IncDecStmt:
		w.assignTarget(t.X, h)
	case *ast.ReturnStmt:
		for _, r := range t.Results {
			w.record(r, h, false)
		}
	case *ast.IfStmt:
		if t.Init != nil {
			h = w.stmt(t.Init, h)
		}
		w.record(t.Cond, h, false)
		a := w.block(t.Body.List, h.copy())
		b := h.copy()
		if t.Else != nil {
			b = w.stmt(t.Else, b)
		}
		return intersect(a, b)
	case *ast.BlockStmt:
		return w.block(t.List, h)
	case *ast.ForStmt:
		if t.Init != nil {
			h = w.stmt(t.Init, h)
		}
		if t.Cond != nil {
			w.record(t.Cond, h, false)
		}
		out := w.block(t.Body.List, h.copy())
		if t.Post != nil {
			w.stmt(t.Post, out)
		}
		return intersect(h, out)
	case *ast.RangeStmt:
		w.record(t.X, h, false)
		out := w.block(t.Body.List, h.copy())
		return intersect(h, out)
	case *ast.SwitchStmt:
		if t.Init != nil {
			h = w.stmt(t.Init, h)
		}
		if t.Tag != nil {
			w.record(t.Tag, h, false)
		}
		res := h.copy()
		for _, c := range t.Body.List {
			cc := c.(*ast.CaseClause)
			for _, e := range cc.List {
				w.record(e, h, false)
			}
			res = intersect(res, w.block(cc.Body, h.copy()))
		}
		return res
	case *ast.TypeSwitchStmt:
		res := h.copy()
		for _, c := range t.Body.List {
			cc := c.(*ast.CaseClause)
			res = intersect(res, w.block(cc.Body, h.copy()))
		}
		return res
	case *ast.DeclStmt:
		if gd, ok := t.Decl.(*ast.GenDecl); ok {
			for _, sp := range gd.Specs {
				if vs, ok := sp.(*ast.ValueSpec); ok {
					for _, v := range vs.Values {
						w.record(v, h, false)
					}
				}
			}
		}
	case *ast.GoStmt:
		w.record(t.Call, held{}, false)
	case *ast.SendStmt:
		w.record(t.Chan, h, false)
		w.record(t.Value, h, false)
	case *ast.LabeledStmt:
		return w.stmt(t.Stmt, h)
	case *ast.SelectStmt:
		for _, c := range t.Body.List {
			cc := c.(*ast.CommClause)
			w.block(cc.Body, h.copy())
		}
	}
	return h
}

func (w *walker) block(list []ast.Stmt, h held) held {
	for _, s := range list {
		h = w.stmt(s, h)
	}
	return h
}

func leanStr(s string) string { return strconv.Quote(s) }

func writeIfChanged(path, content string) error {
	if old, err := os.ReadFile(path); err == nil && string(old) == content {
		return nil
	}
	return os.WriteFile(path, []byte(content), 0o644)
}

func lockSites(repo string) (string, error) {
	var b strings.Builder
	b.WriteString("/- GENERATED by /verif/extract from /repo — do not edit. -/\nnamespace PCV.Gen\n\n")
	b.WriteString("structure LockSite where\n  file : String\n  fn : String\n  field : String\n  recv : String\n  write : Bool\n  heldW : Bool\n  heldR : Bool\nderiving Repr, DecidableEq\n\n")
	for _, g := range guards {
		fset := token.NewFileSet()
		f, err := parser.ParseFile(fset, filepath.Join(repo, g.file), nil, 0)
		if err != nil {
			return "", err
		}
		w := &walker{fset: fset, g: g}
		for _, d := range f.Decls {
			fd, ok := d.(*ast.FuncDecl)
			if !ok || fd.Body == nil {
				continue
			}
			w.fn = fd.Name.Name
			if fd.Recv != nil && len(fd.Recv.List) > 0 {
				w.fn = strings.TrimPrefix(exprStr(fset, fd.Recv.List[0].Type), "*") + "." + fd.Name.Name
			}
			init := held{}
			if strings.HasSuffix(fd.Name.Name, "Locked") && fd.Recv != nil && len(fd.Recv.List) > 0 && len(fd.Recv.List[0].Names) > 0 {
				// convention: a *Locked method is entered with the receiver's write lock held;
				// the matching obligation is recorded at every call site ("call:<name>")
				init[fd.Recv.List[0].Names[0].Name+".mu"] = "W"
			}
			w.block(fd.Body.List, init)
		}
		sort.SliceStable(w.sites, func(i, j int) bool { return w.sites[i].line < w.sites[j].line })
		fmt.Fprintf(&b, "/-- accesses to guarded fields in %s (source order) -/\ndef %s : List LockSite := [\n", g.file, g.group)
		for i, s := range w.sites {
			sep := ","
			if i == len(w.sites)-1 {
				sep = ""
			}
			fmt.Fprintf(&b, "  { file := %s, fn := %s, field := %s, recv := %s, write := %v, heldW := %v, heldR := %v }%s\n",
				leanStr(g.file), leanStr(s.fn), leanStr(s.field), leanStr(s.recv), s.write, s.heldW, s.heldR, sep)
		}
		b.WriteString("]\n\n")
	}
	b.WriteString("end PCV.Gen\n")
	return b.String(), nil
}

func main() {
	if len(os.Args) != 3 {
		fmt.Fprintln(os.Stderr, "usage: extract <repo> <outdir>")
		os.Exit(2)
	}
	repo, out := os.Args[1], os.Args[2]
	if err := os.MkdirAll(out, 0o755); err != nil {
		fmt.Fprintln(os.Stderr, err)
		os.Exit(1)
	}
	ls, err := lockSites(repo)
	if err != nil {
		fmt.Fprintln(os.Stderr, "locksites:", err)
		os.Exit(1)
	}
	if err := writeIfChanged(filepath.Join(out, "LockSites.lean"), ls); err != nil {
		fmt.Fprintln(os.Stderr, err)
		os.Exit(1)
	}
	if err := consts(repo, out); err != nil {
		fmt.Fprintln(os.Stderr, "consts:", err)
		os.Exit(1)
	}
}
